"""Inputs whose kalign alignments cover the width / name-length / row-count classes that the
writers and readers care about (C06, C15)."""
from vf import gen

WIDTHS = [1, 2, 59, 60, 61, 119, 120, 121, 180, 240, 600]
FORMAT_WORDS = ["Name", "MSF", "CLUSTAL", "Len", "Check", "Kalign", "Weight"]


def special_names(rng, n):
    pool = []
    pool += FORMAT_WORDS
    pool += ["-", "--", "_", ".", "|", "-.-", "__", "|.|", "a", "a.", "a.b", "a.b|c", "a-", "a-b", "A", "AA", "AAA", "1", "11"]
    # prefixes of each other
    base = "".join(rng.choice(gen.NAMECHARS) for _ in range(30))
    pool += [base[:k] for k in (1, 5, 10, 29, 30)]
    rng.shuffle(pool)
    out = []
    seen = set()
    for p in pool:
        if p not in seen:
            seen.add(p)
            out.append(p)
        if len(out) == n:
            break
    i = 0
    while len(out) < n:
        nm = "x%d" % i
        i += 1
        if nm not in seen:
            seen.add(nm)
            out.append(nm)
    return out


def deletion_family(rng, n, L, alpha, pdel=0.08, psub=0.1):
    """sequences obtained from a root of length L by deletions and substitutions only: the alignment
    of such a family is usually exactly L columns wide"""
    root = gen.rand_seq(rng, L, alpha)
    seqs = [root]
    while len(seqs) < n:
        s = []
        i = 0
        while i < L:
            if rng.random() < pdel and L > 3:
                i += rng.randint(1, 3)
                continue
            s.append(rng.choice(alpha) if rng.random() < psub else root[i])
            i += 1
        seqs.append("".join(s) or root[0])
    return seqs


def gen_alignment_input(rng, cls=None, nl=None):
    """returns dict(kind, recs, cls); nl = length of the longest name for class line_len_sweep"""
    cls = cls or rng.choice(["width", "width", "names_long", "names_special", "many_rows", "many_lines", "gapfree", "mixedcase", "bulk", "dup_names", "rows_gt_1024", "ragged_right", "line_len_sweep"])
    kind = rng.choice(["dna", "protein"])
    alpha = gen.DNA if kind == "dna" else "DEFHIKLMPQRSVWYACGT"
    if cls == "width":
        L = rng.choice(WIDTHS)
        n = rng.randint(2, 12)
        seqs = deletion_family(rng, n, L, alpha, pdel=0.0 if L < 3 else 0.06)
        names = gen.names(rng, n, rng.choice(["s", "rand"]))
    elif cls == "names_long":
        n = rng.randint(2, 10)
        seqs = gen.family(rng, n, rng.randint(20, 150), alpha, "random", 0.15, 0.04, 3)
        names = gen.names(rng, n, rng.choice(["long", "prefix"]))
        if rng.random() < 0.5:
            names[0] = names[0][:200].ljust(200, "z")
    elif cls == "line_len_sweep":
        # block-format lines (name, padding, 60 or fewer columns) whose length walks across 250..262 characters: longest name 180..200, any width
        n = rng.randint(2, 8)
        seqs = gen.family(rng, n, rng.choice([61, 70, 100, 125, 150, 175]), alpha, "random", 0.12, 0.03, 3)
        names = gen.names(rng, n, rng.choice(["s", "rand"]))
        if nl is None:
            nl = rng.choice([188, 189, 190, 191, 192]) if rng.random() < 0.5 else rng.randint(180, 200)
        k = rng.randrange(n)
        names[k] = (names[k] + "_" + "".join(rng.choice(gen.NAMECHARS) for _ in range(nl)))[:nl]
    elif cls == "names_special":
        n = rng.randint(3, 25)
        seqs = gen.family(rng, n, rng.randint(20, 130), alpha, "random", 0.15, 0.04, 3)
        names = special_names(rng, n)
    elif cls == "many_rows":
        n = rng.choice([100, 300, 520, 600])
        seqs = gen.family(rng, n, rng.randint(20, 70), alpha, "random", 0.15, 0.03, 2)
        names = gen.names(rng, n, "s")
    elif cls == "rows_gt_1024":
        # more rows than the 1024-line step of the writers' line buffer, in two or more blocks
        n = rng.choice([1025, 1100, 1300])
        seqs = gen.family(rng, n, rng.randint(62, 130), alpha, "random", 0.12, 0.02, 2)
        names = gen.names(rng, n, "s")
    elif cls == "dup_names":
        # names need not be unique for a round trip: rows are identified by position
        n = rng.randint(3, 14)
        seqs = gen.family(rng, n, rng.randint(20, 140), alpha, "random", 0.15, 0.04, 3)
        names = gen.names(rng, n, rng.choice(["s", "rand"]))
        for _ in range(rng.randint(1, 3)):
            i, j = rng.sample(range(n), 2)
            names[j] = names[i]
    elif cls == "ragged_right":
        # a sequence plus C-terminally truncated copies of it: alignments without leading / internal gaps but with trailing gaps
        n = rng.randint(2, 8)
        root = gen.rand_seq(rng, rng.choice([20, 60, 61, 120, 200]), alpha)
        seqs = [root] + [root[:rng.randint(max(2, len(root) // 2), len(root))] for _ in range(n - 1)]
        if rng.random() < 0.5:
            seqs = ["".join(rng.choice(alpha) if rng.random() < 0.03 else c for c in s_) for s_ in seqs]
        rng.shuffle(seqs)
        names = gen.names(rng, n, "s")
    elif cls == "many_lines":
        # rows x blocks crosses 1024 / 2048 output lines
        n = rng.choice([18, 30, 40])
        L = rng.choice([2100, 3100, 4200])
        seqs = gen.family(rng, n, L, alpha, "random", 0.08, 0.005, 5)
        names = gen.names(rng, n, "s")
    elif cls == "gapfree":
        n = rng.randint(2, 8)
        L = rng.choice([1, 7, 60, 61, 120, 200])
        root = gen.rand_seq(rng, L, alpha)
        seqs = ["".join(rng.choice(alpha) if rng.random() < 0.05 else c for c in root) for _ in range(n)]
        names = gen.names(rng, n, "s")
    elif cls == "mixedcase":
        n = rng.randint(2, 12)
        seqs = gen.family(rng, n, rng.randint(10, 200), alpha, "random", 0.15, 0.04, 3)
        seqs = [gen.random_case(rng, s, rng.choice([0.1, 0.5, 1.0])) for s in seqs]
        names = gen.names(rng, n, "rand")
    else:
        n = rng.randint(2, 40)
        seqs = gen.family(rng, n, rng.randint(5, 300), alpha, rng.choice(["random", "star"]), 0.2, 0.05, 4)
        names = gen.names(rng, n, rng.choice(["s", "rand", "num"]))
    if kind == "protein":
        tot = sum(len(s) for s in seqs)
        po = sum(1 for s in seqs for c in s if c.upper() in gen.AA_ONLY)
        if po * 3 < tot + 3:
            seqs = [s + "".join(rng.choice(gen.AA_ONLY) for _ in range(len(s) + 2)) for s in seqs]
    return {"kind": kind, "recs": list(zip(names, seqs)), "cls": cls}
