#!/usr/bin/env python3
"""Entry point: python3 vf/check.py <ID> --tier quick|thorough [--replay PATH]

exit 0: property held on everything explored (evidence written)
exit 1: violation (line "VIOLATION property=<id> replay=<path>")
exit 2: inconclusive (harness failure, too few observations)
"""
import argparse
import importlib
import json
import os
import sys
import traceback

sys.path.insert(0, os.path.dirname(os.path.dirname(os.path.abspath(__file__))))
from vf import common  # noqa: E402
from vf.build import BuildError  # noqa: E402


def main():
    ap = argparse.ArgumentParser()
    ap.add_argument("pid")
    ap.add_argument("--tier", default=os.environ.get("VERIF_TIER", "quick"), choices=["quick", "thorough"])
    ap.add_argument("--replay", default=None)
    ap.add_argument("--scale", type=float, default=1.0, help="multiply case counts (for soaks)")
    a = ap.parse_args()
    seed = int(os.environ.get("VERIF_SEED", "1") or 1)
    pid = a.pid.upper()
    mod = importlib.import_module("vf.props.%s" % pid.lower())
    ck = common.Check(pid, a.tier, seed, level=getattr(mod, "LEVEL", "exploration"))
    ck.scale = a.scale
    try:
        if a.replay:
            doc = json.load(open(a.replay))
            mod.replay(ck, doc)
        else:
            mod.run(ck, a.tier)
    except BuildError as ex:
        print("%s: build of /repo failed: %s" % (pid, str(ex)[:3000]))
        ck.note_inconclusive("build failed")
    except common.Inconclusive as ex:
        ck.note_inconclusive(str(ex))
    except Exception:
        traceback.print_exc()
        ck.note_inconclusive("harness exception")
    rc = ck.finish(min_nontrivial=getattr(mod, "MIN_NONTRIVIAL", 2))
    sys.exit(rc)


if __name__ == "__main__":
    main()
