#!/usr/bin/env python3
"""Confirm a seeded change produced by a sub-agent, in a fresh scratch worktree of /repo's HEAD:
  1. patch applies, tree builds (cmake), the pinned test suite passes with it,
  2. the demonstration FAILS with the change,
  3. the demonstration PASSES without it (rebuilt).
On success the mutant is copied to /verif/seeded/<name>/ with a 'confirmed' block added to meta.json.
usage: confirm_mutant.py <dir containing patch.diff, meta.json, demo*> <name>   e.g. /tmp/wt/C11/MUTANT1 C11-1
"""
import json
import os
import shutil
import subprocess
import sys
import time

VERIF = os.path.dirname(os.path.dirname(os.path.abspath(__file__)))


def sh(cmd, cwd, timeout=1800):
    p = subprocess.run(cmd, shell=True, cwd=cwd, stdout=subprocess.PIPE, stderr=subprocess.STDOUT, timeout=timeout, stdin=subprocess.DEVNULL)
    return p.returncode, p.stdout.decode(errors="replace")


def main():
    src, name = sys.argv[1], sys.argv[2]
    sub = os.path.basename(src.rstrip("/"))
    meta = json.load(open(os.path.join(src, "meta.json")))
    wt = "/tmp/cf_%s" % name
    subprocess.run(["git", "-C", "/repo", "worktree", "remove", "--force", wt], stdout=subprocess.DEVNULL, stderr=subprocess.DEVNULL)
    shutil.rmtree(wt, ignore_errors=True)
    subprocess.run(["git", "-C", "/repo", "worktree", "add", "-q", "--detach", wt, "HEAD"], check=True)
    res = {"head": subprocess.run(["git", "-C", "/repo", "rev-parse", "--short", "HEAD"], stdout=subprocess.PIPE).stdout.decode().strip(),
           "date": time.strftime("%Y-%m-%d %H:%M")}
    ok = False
    try:
        shutil.copytree(src, os.path.join(wt, sub))
        rc, out = sh("git apply %s/patch.diff" % sub, wt)
        res["applies"] = rc == 0
        if rc != 0:
            print(out)
            return 1
        build = "cmake -G Ninja -S . -B _build >/dev/null && cmake --build _build 2>&1 | tail -3"
        rc, out = sh(build, wt)
        res["builds"] = rc == 0
        rc, out = sh("ctest --test-dir _build -j8 --timeout 900 </dev/null 2>&1 | tail -4", wt)
        res["tests_with_change"] = "100% tests passed" in out
        demo = meta["demo_cmd"]
        rc1, out1 = sh(demo, wt, timeout=3600)
        res["demo_with_change_rc"] = rc1
        res["demo_with_change_tail"] = out1.strip().split("\n")[-3:]
        sh("git apply -R %s/patch.diff" % sub, wt)
        rc, out = sh("cmake --build _build 2>&1 | tail -3", wt)
        rc0, out0 = sh(demo, wt, timeout=3600)
        res["demo_without_change_rc"] = rc0
        res["demo_without_change_tail"] = out0.strip().split("\n")[-3:]
        ok = res["builds"] and res["tests_with_change"] and rc1 != 0 and rc0 == 0
        res["confirmed"] = ok
    finally:
        subprocess.run(["git", "-C", "/repo", "worktree", "remove", "--force", wt], stdout=subprocess.DEVNULL, stderr=subprocess.DEVNULL)
        shutil.rmtree(wt, ignore_errors=True)
    print(json.dumps(res, indent=1))
    if ok:
        dst = os.path.join(VERIF, "seeded", name)
        shutil.rmtree(dst, ignore_errors=True)
        shutil.copytree(src, dst)
        meta["confirmed"] = res
        meta["ran"] = ["git apply patch.diff in a scratch worktree of /repo HEAD", "cmake + ctest (12 tests)", meta["demo_cmd"] + " (with change: fails; without: passes)"]
        json.dump(meta, open(os.path.join(dst, "meta.json"), "w"), indent=1)
    return 0 if ok else 1


if __name__ == "__main__":
    sys.exit(main())
