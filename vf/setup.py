#!/usr/bin/env python3
"""setup: verify the toolchain the checks need is present (offline)."""
import shutil, sys, os
need = ["gcc", "clang-14", "valgrind", "python3"]
missing = [t for t in need if shutil.which(t) is None]
for p in ["/usr/lib/llvm-14/lib/libarcher.so", "/usr/lib/llvm-14/lib/libomp.so"]:
    if not os.path.exists(p):
        missing.append(p)
if missing:
    print("setup: missing tools:", missing)
    sys.exit(1)
os.makedirs(os.path.join(os.path.dirname(os.path.abspath(__file__)), "..", "build"), exist_ok=True)
print("setup: ok")
