"""Seeded sequence / name generators for the workloads."""
import random
import string

DNA = "ACGT"
RNA = "ACGU"
AA = "ACDEFGHIKLMNPQRSTVWY"
AA_ONLY = "DEFHIKLMPQRSVWY"  # the 15 amino-acid letters that are not nucleotide letters (A C G T N U excluded)
IUPAC_NUC = "ACGTUNRYSWKMBDHV"
NAMECHARS = string.ascii_letters + string.digits + "_.|-"

BOUNDARY_LENGTHS = [1, 2, 59, 60, 61, 119, 120, 121, 499, 500, 501, 511, 512, 513, 1023, 1024, 1025]
BOUNDARY_COUNTS = [2, 3, 99, 100, 101, 511, 512, 513, 1025]


def rand_seq(rng, L, alpha):
    return "".join(rng.choice(alpha) for _ in range(L))


def mutate(rng, s, alpha, psub=0.1, pindel=0.03, maxindel=1):
    """substitutions plus length-balanced insertions / deletions of 1..maxindel residues"""
    o = []
    i = 0
    n = len(s)
    while i < n:
        ch = s[i]
        r = rng.random()
        if r < pindel:
            i += rng.randint(1, maxindel)  # deletion
            continue
        if r < 2 * pindel:
            for _ in range(rng.randint(1, maxindel)):
                o.append(rng.choice(alpha))
        if rng.random() < psub:
            o.append(rng.choice(alpha))
        else:
            o.append(ch)
        i += 1
    return "".join(o) or rng.choice(alpha)


def names(rng, n, style=None, maxlen=40):
    """n pairwise distinct names over [A-Za-z0-9_.|-] (no whitespace), distinct within 200 chars"""
    style = style or rng.choice(["s", "s", "rand", "long", "num", "prefix"])
    out = []
    seen = set()
    i = 0
    prefix = "".join(rng.choice(NAMECHARS) for _ in range(150))
    while len(out) < n:
        if style == "s":
            nm = "s%d" % i
        elif style == "num":
            nm = "%d" % (i + rng.choice([0, 7, 95]))
        elif style == "rand":
            nm = "".join(rng.choice(NAMECHARS) for _ in range(rng.randint(1, maxlen)))
        elif style == "long":
            nm = "".join(rng.choice(NAMECHARS) for _ in range(rng.randint(100, 200)))
        elif style == "prefix":
            nm = prefix + "%d" % i
        else:
            nm = "%s%d" % (style, i)
        i += 1
        if nm in seen or nm[0] in "-.|":
            # a leading punctuation char is legal, but keep most names starting alphanumerically
            if nm in seen:
                continue
        seen.add(nm)
        out.append(nm)
    return out


def family(rng, n, L, alpha, shape="random", psub=0.15, pindel=0.04, maxindel=3):
    """evolve n sequences from a random root over a tree of the given shape"""
    root = rand_seq(rng, L, alpha)
    seqs = [root]
    if shape == "star":
        while len(seqs) < n:
            seqs.append(mutate(rng, root, alpha, psub, pindel, maxindel))
    elif shape == "caterpillar":
        while len(seqs) < n:
            seqs.append(mutate(rng, seqs[-1], alpha, psub / 2, pindel / 2, maxindel))
    elif shape == "balanced":
        level = [root]
        while len(level) < n:
            nxt = []
            for s in level:
                nxt.append(mutate(rng, s, alpha, psub / 2, pindel / 2, maxindel))
                nxt.append(mutate(rng, s, alpha, psub / 2, pindel / 2, maxindel))
            level = nxt
        seqs = level[:n]
    else:
        while len(seqs) < n:
            seqs.append(mutate(rng, rng.choice(seqs), alpha, psub, pindel, maxindel))
    return seqs[:n]


def seqset(rng, kind=None, nmin=2, nmax=40, lmin=1, lmax=300, alpha=None):
    """A varied set of sequences. Returns (alpha_kind, seqs). kind: 'dna'|'rna'|'protein'"""
    kind = kind or rng.choice(["dna", "protein", "protein", "rna"])
    if alpha is None:
        alpha = {"dna": DNA, "rna": RNA, "protein": AA}[kind]
    n = rng.randint(nmin, nmax)
    mode = rng.choice(["family", "family", "family", "random", "lowcomp", "dups", "ratio", "equal"])
    L = rng.randint(max(lmin, 1), lmax)
    if mode == "family":
        seqs = family(rng, n, L, alpha, rng.choice(["random", "star", "caterpillar", "balanced"]),
                      rng.choice([0.02, 0.1, 0.3]), rng.choice([0.0, 0.02, 0.08]), rng.choice([1, 3, 10]))
    elif mode == "random":
        seqs = [rand_seq(rng, rng.randint(max(lmin, 1), lmax), alpha) for _ in range(n)]
    elif mode == "lowcomp":
        unit = rand_seq(rng, rng.randint(1, 4), alpha)
        seqs = []
        for _ in range(n):
            s = (unit * (L // len(unit) + 1))[:rng.randint(max(1, L // 2), L)]
            seqs.append(mutate(rng, s, alpha, 0.03, 0.01))
    elif mode == "dups":
        base = family(rng, max(2, n // 2), L, alpha)
        seqs = [rng.choice(base) for _ in range(n)]
    elif mode == "ratio":
        long = rand_seq(rng, lmax, alpha)
        seqs = [long] + [long[rng.randint(0, lmax - 1):][:rng.randint(1, 8)] or alpha[0] for _ in range(n - 1)]
    else:  # equal lengths
        root = rand_seq(rng, L, alpha)
        seqs = [mutate(rng, root, alpha, 0.1, 0.0) for _ in range(n)]
        seqs = [s[:L].ljust(L, alpha[0]) for s in seqs]
    seqs = [s if s else alpha[0] for s in seqs]
    if kind == "protein":
        # make sure the set is recognisably protein (>= 25% protein-only letters overall)
        tot = sum(len(s) for s in seqs)
        po = sum(1 for s in seqs for c in s if c.upper() in AA_ONLY)
        if po * 4 < tot + 4:
            seqs = [s + "".join(rng.choice(AA_ONLY) for _ in range(len(s) + 1)) for s in seqs]
    return kind, seqs


def insert_gaps(rng, seqs, rate=0.3, gapchars="-"):
    """Random aligned presentation: pad all rows to one width with gap characters spread at random."""
    maxlen = max(len(s) for s in seqs)
    width = int(maxlen * (1 + rate)) + rng.randint(0, 3)
    width = max(width, maxlen)
    rows = []
    for s in seqs:
        ngap = width - len(s)
        pos = sorted(rng.randint(0, len(s)) for _ in range(ngap))
        out = []
        pi = 0
        for i in range(len(s) + 1):
            while pi < len(pos) and pos[pi] == i:
                out.append(rng.choice(gapchars))
                pi += 1
            if i < len(s):
                out.append(s[i])
        rows.append("".join(out))
    return rows


def random_case(rng, s, p):
    return "".join((c.lower() if rng.random() < p else c) for c in s)
