"""Shared machinery: process runner with limits, sanitizer-report parsing,
violation bookkeeping with known-findings matching, evidence writing."""
import hashlib
import json
import os
import random
import re
import resource
import shutil
import signal
import subprocess
import sys
import tempfile
import threading
import time
from concurrent.futures import ThreadPoolExecutor

VERIF = os.path.dirname(os.path.dirname(os.path.abspath(__file__)))
REPO = os.environ.get("KALIGN_REPO", "/repo")
EVIDENCE_DIR = os.environ.get("KV_EVIDENCE_DIR") or os.path.join(VERIF, "evidence")
REPLAY_DIR = os.path.join(VERIF, "replays")
SCRATCH_ROOT = os.path.join(VERIF, "scratch")
KNOWN_FILE = os.path.join(VERIF, "known_findings.txt")
NCPU = min(16, os.cpu_count() or 4)

EXIT_OK, EXIT_VIOLATION, EXIT_INCONCLUSIVE = 0, 1, 2
KV_EXIT_VIOLATION = 97  # exit status used by the hook runtime's online checkers
ASAN_EXIT = 98

BASE_ENV = {
    "PATH": os.environ.get("PATH", "/usr/bin:/bin"),
    "HOME": os.environ.get("HOME", "/root"),
    "LANG": "C",
    "LC_ALL": "C",
    "ASAN_OPTIONS": "detect_leaks=1:allocator_may_return_null=1:exitcode=%d:abort_on_error=0:detect_stack_use_after_return=0" % ASAN_EXIT,
    "UBSAN_OPTIONS": "print_stacktrace=1:halt_on_error=1",
    "LSAN_OPTIONS": "exitcode=0",
    "OMP_WAIT_POLICY": "passive",
    "GOMP_SPINCOUNT": "0",
}


class Inconclusive(Exception):
    pass


# ----------------------------------------------------------------------------------------------
# process runner


class Proc:
    __slots__ = ("cmd", "rc", "out", "err", "timed_out", "cpu_limited", "wall", "signal", "retried")

    def __init__(self):
        self.retried = False
        self.timed_out = False
        self.cpu_limited = False
        self.signal = None


def run_proc(cmd, stdin_data=None, env=None, timeout=300, cpu=120, cwd=None, stdin_file=None, stdin_socket=False):
    """Run cmd with RLIMIT_CPU and a wall-clock watchdog. stdin is /dev/null unless given.
    The CPU limit is the verdict-relevant bound (load independent). A wall-clock expiry is re-run once with a
    four times longer watchdog before it is reported, so a loaded machine does not turn into 'hang' alarms."""
    r = _run_proc_once(cmd, stdin_data, env, timeout, cpu, cwd, stdin_file, stdin_socket)
    if r.timed_out:
        r2 = _run_proc_once(cmd, stdin_data, env, timeout * 4, cpu, cwd, stdin_file, stdin_socket)
        r2.retried = True
        return r2
    return r


def _run_proc_once(cmd, stdin_data=None, env=None, timeout=300, cpu=120, cwd=None, stdin_file=None, stdin_socket=False):
    e = dict(BASE_ENV)
    if env:
        e.update(env)

    def pre():
        resource.setrlimit(resource.RLIMIT_CPU, (cpu, cpu + 5))
        resource.setrlimit(resource.RLIMIT_CORE, (0, 0))
        os.setsid()

    t0 = time.time()
    r = Proc()
    r.cmd = cmd
    feeder = None
    if stdin_file is not None:
        sin = open(stdin_file, "rb")
    elif stdin_data is not None and stdin_socket:
        # standard input is a connected stream socket (inetd style / a parent that uses socketpair for stdio)
        import socket
        import threading
        ours, sin = socket.socketpair()

        def feed(sock=ours, data=stdin_data):
            try:
                sock.sendall(data)
                sock.shutdown(socket.SHUT_WR)
            except OSError:
                pass
            finally:
                sock.close()
        feeder = threading.Thread(target=feed, daemon=True)
    elif stdin_data is not None:
        sin = subprocess.PIPE
    else:
        sin = subprocess.DEVNULL
    p = subprocess.Popen(cmd, stdin=sin, stdout=subprocess.PIPE, stderr=subprocess.PIPE, env=e, preexec_fn=pre, cwd=cwd)
    if feeder is not None:
        sin.close()
        feeder.start()
    try:
        out, err = p.communicate(stdin_data if (stdin_file is None and feeder is None) else None, timeout=timeout)
    except subprocess.TimeoutExpired:
        r.timed_out = True
        try:
            os.killpg(p.pid, signal.SIGKILL)
        except Exception:
            pass
        out, err = p.communicate()
    finally:
        if stdin_file is not None:
            sin.close()
        if feeder is not None:
            feeder.join(5)
    r.rc = p.returncode
    r.out = out
    r.err = err
    r.wall = time.time() - t0
    if r.rc is not None and r.rc < 0:
        r.signal = -r.rc
        if r.signal in (signal.SIGXCPU,) or (r.signal == signal.SIGKILL and not r.timed_out and r.wall >= cpu * 0.5):
            r.cpu_limited = True
    return r


def pmap(fn, items, workers=NCPU):
    items = list(items)
    if not items:
        return []
    with ThreadPoolExecutor(max_workers=workers) as ex:
        return list(ex.map(fn, items))


# ----------------------------------------------------------------------------------------------
# sanitizer report parsing

_FRAME = re.compile(r"^\s*#(\d+)\s+0x[0-9a-f]+\s+(?:in\s+)?(\S+)\s+(\S+?)(?::(\d+))?(?::\d+)?\s*$")


def _kalign_frame(lines):
    """innermost frame whose source file is kalign's (lib/src, src) -> function name"""
    for ln in lines:
        m = _FRAME.match(ln)
        if not m:
            continue
        func, path = m.group(2), m.group(3)
        if "/lib/src/" in path or re.search(r"/src/(run_kalign|parameters|run_reformat)\.c", path):
            return func
    return None


def sanitizer_findings(stderr_text, rc=None):
    """Return list of (key, excerpt). Keys: asan:<kind>:<func>, ubsan:<kind>:<func|file:line>, lsan:leak:<func>."""
    out = []
    t = stderr_text
    lines = t.split("\n")
    i = 0
    n = len(lines)
    while i < n:
        ln = lines[i]
        m = re.search(r"ERROR: AddressSanitizer: ([A-Za-z0-9_-]+)", ln)
        if m:
            kind = m.group(1)
            j = i + 1
            blk = []
            while j < n and not lines[j].startswith("==") or j == i + 1:
                blk.append(lines[j])
                j += 1
                if j - i > 60:
                    break
            # first stack only (up to first blank line after frames start)
            first = []
            started = False
            for b in blk:
                if _FRAME.match(b):
                    started = True
                    first.append(b)
                elif started:
                    break
            fn = _kalign_frame(first) or "?"
            out.append(("asan:%s:%s" % (kind, fn), "\n".join(lines[i:i + 14])))
            i = j
            continue
        m = re.search(r"(\S+?):(\d+):(\d+): runtime error: (.*)$", ln)
        if m:
            msg = m.group(4)
            kind = re.sub(r"[0-9x-]+", "N", msg)
            kind = re.sub(r"'[^']*'", "T", kind)
            kind = "-".join(kind.split()[:6])
            blk = []
            j = i + 1
            while j < n and _FRAME.match(lines[j]):
                blk.append(lines[j])
                j += 1
            fn = _kalign_frame(blk) or (os.path.basename(m.group(1)) + ":" + m.group(2))
            out.append(("ubsan:%s:%s" % (kind, fn), "\n".join(lines[i:i + 8])))
            i = j
            continue
        if "ERROR: LeakSanitizer" in ln:
            # collect each "Direct leak" block's innermost kalign frame
            j = i + 1
            funcs = []
            cur = []
            while j < n:
                if lines[j].startswith("Direct leak") or lines[j].startswith("Indirect leak") or lines[j].startswith("SUMMARY"):
                    if cur:
                        f = _kalign_frame(cur)
                        if f:
                            funcs.append(f)
                    cur = []
                    if lines[j].startswith("SUMMARY"):
                        break
                else:
                    cur.append(lines[j])
                j += 1
            fset = sorted(set(funcs)) or ["?"]
            for f in fset[:6]:
                out.append(("lsan:leak:%s" % f, "\n".join(lines[i:i + 12])))
            i = j + 1
            continue
        i += 1
    return out


def abnormal_key(r, allow_rcs=(0, 1)):
    """Classify an abnormal termination of a target process. Returns list of (key, text) or []."""
    err = r.err.decode(errors="replace") if isinstance(r.err, bytes) else (r.err or "")
    keys = []
    finds = sanitizer_findings(err)
    for k, ex in finds:
        if k.startswith("lsan:") and r.rc != 0:
            continue  # leak on a failure path: not forbidden by C05
        keys.append((k, ex))
    if r.timed_out:
        keys.append(("hang:wall-clock", "wall clock watchdog expired after %.0fs" % r.wall))
    elif r.cpu_limited:
        keys.append(("hang:cpu-limit", "CPU limit reached"))
    elif r.signal is not None:
        if not any(k.startswith(("asan:", "ubsan:")) for k, _ in keys):
            keys.append(("signal:%d" % r.signal, "killed by signal %d\n%s" % (r.signal, err[-600:])))
    elif r.rc == KV_EXIT_VIOLATION:
        m = re.search(r"KV-VIOLATION (\S+) (\S+) (.*)", err)
        if m:
            keys.append(("monitor:%s:%s" % (m.group(1), m.group(2)), m.group(3)))
        else:
            keys.append(("monitor:unknown", err[-400:]))
    elif r.rc not in allow_rcs and not keys:
        keys.append(("exit:%s" % r.rc, err[-600:]))
    return keys


# ----------------------------------------------------------------------------------------------
# check bookkeeping


def load_known():
    """parse known_findings.txt (never written at run time)"""
    out = []
    if not os.path.exists(KNOWN_FILE):
        return out
    for ln in open(KNOWN_FILE):
        ln = ln.strip()
        m = re.match(r"^(known|fixed): property=(C\d+) (.*)$", ln)
        if not m:
            continue
        status, pid, rest = m.groups()
        commit = None
        if status == "fixed":
            commit, _, rest = rest.partition(" ")
        km = re.match(r"^key=(\S+) (.*)$", rest)
        if not km:
            continue
        out.append({"status": status, "property": pid, "commit": commit, "key": km.group(1), "what": km.group(2)})
    return out


class Check:
    def __init__(self, pid, tier, seed, level="exploration"):
        self.pid = pid
        self.tier = tier
        self.seed = int(seed)
        self.level = level
        self.t0 = time.time()
        self.rng = random.Random(self.seed * 1000003 + int(pid[1:]))
        self.evaluations = 0
        self.nontrivial = set()
        self.samples = []
        self.violations = []  # dicts: key, what, replay
        self.cov = {}
        self.assumptions = []
        self.rule = ""
        self.lock = threading.Lock()
        self.inconclusive = []
        os.makedirs(SCRATCH_ROOT, exist_ok=True)
        self.scratch = tempfile.mkdtemp(prefix="%s-%s-" % (pid, tier), dir=SCRATCH_ROOT)
        self._tmpn = 0

    # --- scratch files
    def tmp(self, suffix=""):
        with self.lock:
            self._tmpn += 1
            n = self._tmpn
        return os.path.join(self.scratch, "t%06d%s" % (n, suffix))

    def tmpdir(self):
        p = self.tmp("d")
        os.makedirs(p)
        return p

    # --- counters
    def count(self, key, n=1):
        with self.lock:
            self.cov[key] = self.cov.get(key, 0) + n

    def cmax(self, key, v):
        with self.lock:
            if key not in self.cov or v > self.cov[key]:
                self.cov[key] = v

    def cmin(self, key, v):
        with self.lock:
            if key not in self.cov or v < self.cov[key]:
                self.cov[key] = v

    def cset(self, key, v):
        with self.lock:
            s = self.cov.setdefault(key, [])
            if v not in s and len(s) < 200:
                s.append(v)

    def evaluated(self, nontrivial_id=None, n=1):
        with self.lock:
            self.evaluations += n
            if nontrivial_id is not None:
                self.nontrivial.add(nontrivial_id)

    def sample(self, s, limit=6):
        with self.lock:
            if len(self.samples) < limit:
                self.samples.append(s)

    # --- violations
    def violation(self, key, what, replay=None):
        """key: stable string; what: human text; replay: dict written to a replay file"""
        with self.lock:
            for v in self.violations:
                if v["key"] == key:
                    v["count"] += 1
                    return
            os.makedirs(os.path.join(REPLAY_DIR, self.pid), exist_ok=True)
            h = hashlib.sha1(key.encode()).hexdigest()[:12]
            path = os.path.join(REPLAY_DIR, self.pid, "%s-%s.json" % (self.tier, h))
            doc = {"property": self.pid, "key": key, "what": what, "seed": self.seed, "tier": self.tier, "replay": replay}
            try:
                with open(path, "w") as fh:
                    json.dump(doc, fh, indent=1, default=_json_default)
            except Exception as ex:  # pragma: no cover
                path = path + " (unwritable: %s)" % ex
            self.violations.append({"key": key, "what": what, "replay": path, "count": 1})

    def proc_violations(self, r, context, allow_rcs=(0, 1), prefix=""):
        """route abnormal termination of a target run through violation(); returns True if any"""
        ks = abnormal_key(r, allow_rcs)
        for k, ex in ks:
            self.violation(prefix + k, ex.strip()[:1500], dict(context, cmd=r.cmd if isinstance(r.cmd, list) else str(r.cmd)))
        return bool(ks)

    def note_inconclusive(self, why):
        with self.lock:
            self.inconclusive.append(why)

    # --- finish
    def finish(self, min_nontrivial=2):
        known = [k for k in load_known() if k["property"] == self.pid]
        real = []
        printed_known = set()
        for v in self.violations:
            hit = None
            for k in known:
                if k.get("status") == "known" and _key_match(k["key"], v["key"]):
                    hit = k
                    break
            if hit:
                if id(hit) not in printed_known:
                    printed_known.add(id(hit))
                    print("KNOWN-FINDING: property=%s %s [key %s]" % (self.pid, hit["what"], hit["key"]))
            else:
                real.append(v)
        wall = time.time() - self.t0
        cov = dict(self.cov)
        for k, v in list(cov.items()):
            if isinstance(v, set):
                cov[k] = sorted(v)
        cov["evaluations"] = self.evaluations
        cov["distinct_nontrivial"] = len(self.nontrivial)
        cov["rule"] = self.rule
        cov["samples"] = self.samples if self.samples else ["(none)"]
        if self.inconclusive:
            cov["inconclusive"] = self.inconclusive[:20]
        ev = {
            "property_id": self.pid,
            "tier": self.tier,
            "seed": self.seed,
            "level": self.level,
            "coverage": cov,
            "assumptions": self.assumptions,
            "wall_s": round(wall, 2),
            "violations": len(real),
        }
        if self.violations:
            ev["coverage"]["violation_keys"] = [{"key": v["key"], "count": v["count"], "known": v not in real} for v in self.violations]
        os.makedirs(EVIDENCE_DIR, exist_ok=True)
        with open(os.path.join(EVIDENCE_DIR, "%s.json" % self.pid), "w") as fh:
            json.dump(ev, fh, indent=1, default=_json_default)
        shutil.rmtree(self.scratch, ignore_errors=True)
        for v in real:
            print("VIOLATION property=%s replay=%s" % (self.pid, v["replay"]))
            print("  key=%s (x%d)\n  %s" % (v["key"], v["count"], v["what"].replace("\n", "\n  ")[:1200]))
        if real:
            print("%s %s: %d violation key(s) in %d evaluations (%.1fs)" % (self.pid, self.tier, len(real), self.evaluations, wall))
            return EXIT_VIOLATION
        if self.inconclusive or len(self.nontrivial) < min_nontrivial or self.evaluations < 1:
            print("%s %s: INCONCLUSIVE: %s (evaluations=%d nontrivial=%d)" % (
                self.pid, self.tier, "; ".join(self.inconclusive[:5]) or "too few non-trivial cases", self.evaluations, len(self.nontrivial)))
            return EXIT_INCONCLUSIVE
        print("%s %s: held on %d evaluations (%d distinct non-trivial) in %.1fs" % (self.pid, self.tier, self.evaluations, len(self.nontrivial), wall))
        return EXIT_OK


def _key_match(pattern, key):
    if pattern == key:
        return True
    if pattern.endswith("*") and key.startswith(pattern[:-1]):
        return True
    return False


def _json_default(o):
    if isinstance(o, bytes):
        try:
            return o.decode("utf-8")
        except Exception:
            return {"hex": o.hex()}
    if isinstance(o, set):
        return sorted(o)
    return str(o)


# ----------------------------------------------------------------------------------------------
# kalign front ends


def write_bytes(path, data):
    with open(path, "wb") as fh:
        fh.write(data if isinstance(data, bytes) else data.encode("latin-1"))
    return path


class CliResult:
    __slots__ = ("proc", "rc", "out_bytes", "stderr", "stdout", "log")


def kalign_cli(paths, files, args=(), nthreads=None, out=None, stdin_data=None, stdin_file=None, env=None, quiet=True,
               timeout=300, cpu=120, verif_log=None, cwd=None, stdin_socket=False):
    """Run the real CLI. files: list of paths. out: path for -o (None -> stdout)."""
    cmd = [paths["kalign"]]
    if quiet:
        cmd.append("-q")
    if nthreads is not None:
        cmd += ["-n", str(nthreads)]
    cmd += list(args)
    if out is not None:
        cmd += ["-o", out]
    cmd += list(files)
    e = dict(env or {})
    if verif_log:
        e["KALIGN_VERIF_LOG"] = verif_log
    r = run_proc(cmd, stdin_data=stdin_data, stdin_file=stdin_file, env=e, timeout=timeout, cpu=cpu, cwd=cwd, stdin_socket=stdin_socket)
    res = CliResult()
    res.proc = r
    res.rc = r.rc
    res.stdout = r.out
    res.stderr = r.err.decode(errors="replace")
    res.out_bytes = None
    if out is not None and os.path.exists(out):
        with open(out, "rb") as fh:
            res.out_bytes = fh.read()
    elif out is None:
        res.out_bytes = r.out
    res.log = None
    if verif_log and os.path.exists(verif_log):
        res.log = read_jsonl(verif_log)
    return res


def read_jsonl(path):
    recs = []
    with open(path, "r", errors="replace") as fh:
        for ln in fh:
            ln = ln.strip()
            if ln.startswith("{"):
                try:
                    recs.append(json.loads(ln))
                except Exception:
                    recs.append({"rec": "unparsable", "text": ln[:200]})
    return recs


def kvdrv(paths, script_lines, env=None, timeout=300, cpu=120, verif_log=None, scratch=None):
    """Run a job script through kvdrv; returns (proc, records)."""
    sp = tempfile.NamedTemporaryFile("w", suffix=".kv", dir=scratch or SCRATCH_ROOT, delete=False)
    sp.write("\n".join(script_lines) + "\n")
    sp.close()
    e = dict(env or {})
    if verif_log:
        e["KALIGN_VERIF_LOG"] = verif_log
    try:
        r = run_proc([paths["kvdrv"], sp.name], env=e, timeout=timeout, cpu=cpu)
    finally:
        os.unlink(sp.name)
    recs = []
    for ln in r.out.decode(errors="replace").split("\n"):
        ln = ln.strip()
        if ln.startswith("{"):
            try:
                recs.append(json.loads(ln))
            except Exception:
                recs.append({"op": "unparsable", "text": ln[:200]})
    return r, recs


def fnum(x):
    """format a float argument for kvdrv / CLI"""
    if x is None:
        return "-1"
    return repr(float(x)) if float(x) != int(float(x)) else str(int(float(x)))
