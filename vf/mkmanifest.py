#!/usr/bin/env python3
"""Regenerates /verif/MANIFEST.json from the table below (run after adding a check)."""
import json
import os
import subprocess

VERIF = os.path.dirname(os.path.dirname(os.path.abspath(__file__)))

# id -> (built?, technique, level text, level note, design ref)
CHECKS = {
    "C01": (True,
            "output-vs-input oracle over real executions (kalign() arrays, msa object, written fasta/msf/clu files, CLI file/stdout) of the ASan+UBSan build with the hook runtime's online invariants active",
            "Each generated input is aligned by the real library and CLI (sanitizer build, 1..16 threads, every admissible type, default and user penalties) and every observable result is compared with the input: row count, order, names, equal lengths, de-gapped residues incl. case, no all-gap column, only '-' added; msa-object fields (alnlen, gaps[], rank, FINAL) are cross-checked. Held = no discrepancy, no sanitizer report, no monitor alarm on the runs made.",
            'Trusts the independent parsers in vf/fmt.py and the driver drv/kvdrv.c; inputs beyond a few thousand sequences and allocation-failure paths are not reached.',
            "4/C01"),
    "C02": (True,
            'three runtime monitors: output-byte differential over thread counts / injected-delay schedules / affinity masks / nesting / no-OpenMP and clang-libomp builds; online ordering checkers in the hook runtime (merge-before-child, exactly-once, forward+backward before meet-up, k-means restarts before reduction); clang ThreadSanitizer + libomp + Archer race detection',
            'Inputs that reach every parallel region are executed by the real binary under many schedules (1..64 threads on 16 cores, seeded delays at task-body starts, 1/2/16-core affinity masks, nested parallelism on and off, gcc/libgomp, clang/libomp and no-OpenMP builds); outputs must be byte-identical, the hook runtime aborts on any merge or DP step that starts before its inputs are complete, and the TSan+Archer build must report no race on kalign-owned memory. Evidence lists events, overlapping DP halves, distinct merge orders and TSan reports seen.',
            'Schedules are sampled, not enumerated; TSan sees only executed code and the synchronisation Archer models; reports on memory allocated inside libomp.so (recycled task descriptors) are discarded.',
            "4/C02"),
    "C03": (True,
            'metamorphic runtime monitor: permuted presentations of the same records through the real CLI (ASan+UBSan), compared as sets of columns',
            'For inputs built to be full of sort ties (equal lengths, duplicates, late-differing names) below and above the 100-sequence switch, the real binary is run on reversal, rotation and random permutations (also split over two files) and the column-membership sets must be equal; rows must come back in the order supplied.',
            'Names pairwise distinct within 200 characters and free of whitespace (premise of the property); permutations are sampled, not enumerated.',
            "4/C03"),
    "C04": (True,
            "metamorphic runtime monitor: many re-presentations of one record set (gap insertions, formats, wrapping, blank lines/CRLF, multi-file and stdin splits with stdin as pipe / socket / redirected file, kalign's own outputs) through the real CLI (ASan+UBSan), output bytes compared with the bare one-file FASTA run",
            'For each generated record set the CLI is run on the bare FASTA file and on 12 (thorough: about 20) re-presentations written by independent writers; every presentation must be accepted and give byte-identical output. Sanitizer reports and leaks on successful runs fail the check as well.',
            'Names without whitespace, residues are letters, records keep their order across parts; tab characters inside sequence lines are not generated.',
            "4/C04"),
    "C05": (True,
            'sanitizer gate over hostile workloads: gcc ASan+UBSan(+LSan) CLI, one process per input (regression corpus, structure-aware mutation of FASTA/MSF/Clustal, grammar-generated near-valid files, option fuzzing, path and strace-injected I/O faults), exit-status / stderr / output-validity oracle, per-letter internal-code monitor, MALLOC_PERTURB_ heap-fill differential, valgrind memcheck, and a libFuzzer target (thorough)',
            "Every input of the workload runs through the real binary built with address, undefined-behaviour and leak sanitizers with reports fatal; a run must terminate, exit 0 only with a structurally valid alignment of the input's letters (full input-vs-output oracle where the generator knows the records) and leak-free, or exit non-zero with a message. Internal residue codes are read back per letter, outputs are compared under three heap-fill patterns, memcheck looks for uninitialised-value use on small inputs and the array API, and the thorough tier adds coverage-guided fuzzing of read->run->write with artifacts re-triaged through the CLI.",
            'Allocation-failure paths are not driven; sanitizers only see executed paths and red-zone-visible errors; thread counts capped at 1024 under the sanitizers; LeakSanitizer is off under strace (ptrace).',
            "4/C05"),
    "C06": (True,
            'self-consistency monitor over real write/read executions: msa object after kalign_run vs msa object after kalign_read_input(kalign_write_msa(...)), field by field (names, residues, gaps[]), first hop in 3 formats and second hop over ordered format pairs, ASan+UBSan build',
            'Alignments kalign itself produces over the width / row-count / name classes the writers and readers branch on are written in every format, read back and converted again; the re-read msa object must equal the written one in row count, order, names, residues and gap vectors, and a conversion must neither be refused nor silently lose data.',
            'Names over [A-Za-z0-9_.|-], 1..200 characters; the second hop of a gap-free alignment is only required not to lose data silently (such a file is by design not recognised as an alignment).',
            "4/C06"),
    "C07": (True,
            'certified-optimum oracle: planted pairwise alignments whose uniqueness is proved case by case by an independent full-matrix interval bound (ref/c07oracle.c) are aligned by the real CLI (ASan+UBSan) as single sequences and as groups of identical copies; only certified cases are judged',
            "Each judged case carries its own certificate (margin of the planted alignment over every other alignment under an interval valuation that covers the kernels' level-dependent terms, under both role assignments); kalign must return exactly the planted column pairs for seq-seq, seq-profile and profile-profile merges, on both sides of the 500-column switch, for all five types and user penalties. Uncertified cases are skipped and counted; the run is inconclusive below a minimum number of certified cases.",
            'Reference objective validated against the unchanged code in the design phase (DESIGN 4/C07); matrices from ref/golden_params.json; only inputs with a certifiably unique optimum are covered, by design.',
            "4/C07"),
    "C08": (True,
            'runtime oracle on the msa object after kalign_run for k identical copies (ASan+UBSan build, hook runtime active), all admissible types x thread counts',
            'k copies of one string over ten alphabet classes, lengths 1..5000 around the 500-column switch and copies 2..500 around the 100-sequence switch are aligned with every type admissible for the detected kind; every returned row must be the input string. Held = no gap anywhere and no sanitizer/monitor report.',
            "Default penalties only (the property's claim); kind as detected by kalign itself.",
            "4/C08"),
    "C09": (True,
            'exhaustive unit grid through aln_param_init plus end-to-end observation of the parameters actually used via the kv_param hook record; explicit-default, CLI-vs-library and kalign()-vs-kalign_run differentials (array entry point with explicit, also zero, penalties)',
            'The complete grid 2 kinds x 6 type constants x (none+5 values)^3 overrides is executed against golden tables; CLI runs for every --type word and option subset record the aln_param really used by kalign_run through the hook and are compared with golden-table-plus-overrides; explicit defaults and the library constant must reproduce the default CLI output byte for byte. The unit grid is exhaustive for its (finite) space; the end-to-end part is sampled.',
            'Golden tables (ref/golden_params.json) transcribed from the shipped tables and README; float comparison with relative tolerance 1e-4.',
            "4/C09"),
    "C10": (True,
            'snapshot monitor in the hook runtime: member gap vectors copied at every guide-tree node completion (kv_merge_end) and compared with the projection of the final alignment when kalign_run returns; structural row-length invariant at every node; the rows handed back by kalign() and written by the CLI are compared with the monitored msa',
            "For every run of the workload (UPGMA and k-means trees, four tree shapes, all types, 1/4/16 threads with injected delays) every internal node is snapshotted at completion and checked after the run: for each member residue the rank of its final column among the columns used by the node's members must equal its column at completion, and the number of used columns must equal the group's length. Held = zero differing positions over the nodes/residue positions counted in the evidence.",
            'Snapshot budget of 60M ints per run (nodes beyond it are counted as skipped); trusts rt/verif_rt.c.',
            "4/C10"),
    "C11": (True,
            "runtime differential monitor: real bpm kernels vs O(nm) reference DP under ASan+UBSan, exhaustive small spaces + seeded random pairs, AVX2 and non-AVX2 builds",
            "Every (text, pattern) pair the workload produces is run through bpm_block, bpm and bpm_256 of the library built from the working tree "
            "(gcc ASan+UBSan, with and without AVX2) and compared with an independent semi-global edit-distance DP; small alphabets are enumerated "
            "completely up to a length bound, block boundaries and the 1024 cap are targeted at random. Held = no mismatch and no sanitizer report on the pairs run.",
            "Trusts the O(nm) reference in drv/bpmdrv.c and the sanitizers; pairs outside the sampled space are not covered.",
            "4/C11"),
    "C12": (True,
            'runtime oracle on CLI output rows of duplicated sequences, premise decided by an independent semi-global edit distance (ref/reftool.c) on the published similarity classes, which are also compared with the class table read from the running build',
            'Inputs of 2..99 sequences with duplicated members are aligned by the real binary (ASan+UBSan); whenever the independent containment premise holds, all copies must come back as identical gapped rows. Cases failing the premise are counted and skipped.',
            '13-class reduction as published; premise computed on upper-cased sequences; lengths < 5000.',
            "4/C12"),
    "C13": (True,
            'runtime oracle on msa->biotype after kalign_read_input / kalign_arr_to_msa, CLI acceptance of --type dna/protein and the MSF label, for generated compositions satisfying one premise, in plain / gapped / padded / permuted / renamed presentations (ASan+UBSan build)',
            'Compositions are drawn to satisfy premise 1 (only A,C,G,T,U,N) or premise 2 (>= 25% protein-only letters, remainder from common letters, U and B/J/O/X/Z in all proportions, also placed at the 25% boundary); the kind kalign reports must be nucleotide resp. protein for every presentation and must not change under permutation or renaming. One recorded finding (U-heavy premise-2 inputs) is listed in known_findings.txt.',
            'The 15 protein-only letters are DEFHIKLMPQRSVWY; sampled compositions, not all.',
            "4/C13"),
    "C14": (True,
            'metamorphic runtime monitor: re-spelled inputs (case flips, T<->U) through kalign_read_input+kalign_run (ASan+UBSan), gap patterns compared',
            'Every generated nucleotide/protein input and a random re-spelling of it are aligned by the real library with the same type and thread count; gap patterns must be identical and letters must be those of the re-spelled input. Pairs for which kalign detects different kinds are skipped and counted.',
            'IUPAC codes limited to 4 percent so that both spellings are detected as the same kind; sampled, not exhaustive.',
            "4/C14"),
    "C15": (True,
            'strict independent parsers (vf/fmt.py) applied to every file the real writers and the CLI produce; header fields recomputed from the msa object (length, GCG checksums, molecule type)',
            'Every alignment of the workload is written as FASTA, MSF and Clustal by kalign_write_msa and to stdout by the CLI; independent strict readers check wrapping at 60, headers, block structure, that every block lists every sequence in order, and for MSF the declared length, per-row and header GCG checksums and the P/N label against values recomputed from the msa object.',
            'MSF/Clustal grammar as stated in the property (GCG checksum formula, blocks of at most 60 columns); kind taken from msa->biotype.',
            "4/C15"),
    "C16": (True,
            'history monitor: interleaved job scripts executed by one driver process vs each job replayed alone in a fresh process (digests of status codes, msa dumps, scores, written bytes), plus allocation accounting (--wrap malloc family) read at quiescence and LeakSanitizer, with heap-churn jobs, same-shape call series and a hostile-allocator mode that hands freed blocks back at random with their old contents (mostly without MALLOC_PERTURB_, which would erase the stale heap data a history leaves behind)',
            "Histories of 5..60 library calls (kalign(), read of 1-2 files, run, dump, write, re-read, compare, rejected calls, 64->1->8 threads, DNA<->protein) with up to three msa-owning jobs interleaved are executed in one process; every job's digest must equal the digest of the same job alone in a fresh process, and after the last free the count of live blocks allocated from kalign code must be zero.",
            "MSF time stamp masked; allocations made inside libgomp are outside the accounting (the property's own exclusion); histories are sampled.",
            "4/C16"),
    "C17": (True,
            'differential monitor: kalign_msa_compare on real msa objects (two runs in one process, files in three formats) vs an independent implementation of the score definition (ref/reftool.c), plus metamorphic checks (range, identity = 100, row-order invariance), ASan+UBSan build',
            'For every generated pair of alignments of the same uniquely named sequences the returned score must equal the independently computed one within 1e-3, lie in [0,100], be 100 for the same alignment with rows permuted and all-gap columns inserted, and not change when the rows of either argument are permuted. The run fails as inconclusive unless the observed scores span at least four deciles.',
            'Unique names; every file argument contains at least one gap character; float32 tolerance 1e-3.',
            "4/C17"),
}


def hook_commits():
    try:
        out = subprocess.run(["git", "-C", "/repo", "log", "--format=%H %s"], stdout=subprocess.PIPE).stdout.decode()
        return [l.split()[0] for l in out.split("\n") if " verif hooks:" in l]
    except Exception:
        return []


def main():
    m = {
        "version": 1,
        "setup_cmd": "python3 vf/setup.py",
        "hooks": {
            "guard": "KALIGN_VERIF",
            "enable": "vf/build.py compiles /repo/lib/src/*.c (the source_files of lib/CMakeLists.txt) and /repo/src/run_kalign.c directly with "
                      "-DKALIGN_VERIF and links /verif/rt/verif_rt.c, which implements the hooks declared in /repo/lib/src/kalign_verif.h",
            "baseline_off_cmd": "rm -rf /repo/_build && cmake -G Ninja -S /repo -B /repo/_build && cmake --build /repo/_build && ctest --test-dir /repo/_build -j8 --timeout 900 </dev/null",
            "source_commits": hook_commits(),
            "add_only": True,
        },
        "engines": [
            {"name": "vf", "path": "vf/check.py", "serves_properties": sorted(k for k, v in CHECKS.items() if v[0]),
             "kind_free_text": "python harness: builds sanitizer variants of /repo's working tree, drives the real CLI / library through generated "
                               "workloads, runs oracles over outputs, hook event logs and sanitizer reports"},
        ],
        "checks": [],
        "not_applicable": [],
        "notes": "All checks: python3 vf/check.py <ID> --tier quick|thorough; exit 0 held / 1 violation / 2 inconclusive. "
                 "known_findings.txt lists recorded and repaired defects. VERIF_SEED seeds every random choice.",
    }
    for pid, (built, tech, text, note, ref) in sorted(CHECKS.items()):
        if not built:
            m["not_applicable"].append({"property_id": pid, "reason": "check under construction in this session (DESIGN.md section %s); not yet registered" % ref})
            continue
        m["checks"].append({
            "property_id": pid,
            "quick_cmd": "python3 vf/check.py %s --tier quick" % pid,
            "thorough_cmd": "python3 vf/check.py %s --tier thorough" % pid,
            "evidence_file": "evidence/%s.json" % pid,
            "replay_cmd_template": "python3 vf/check.py %s --replay {path}" % pid,
            "engine": "vf",
            "level_claimed": {"category": "exploration", "text": text, "design_ref": "DESIGN.md section " + ref},
            "level_note": note,
            "technique": tech,
        })
    with open(os.path.join(VERIF, "MANIFEST.json"), "w") as fh:
        json.dump(m, fh, indent=1)
    print("MANIFEST.json: %d checks, %d not_applicable" % (len(m["checks"]), len(m["not_applicable"])))


if __name__ == "__main__":
    main()
