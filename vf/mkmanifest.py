#!/usr/bin/env python3
"""Regenerates /verif/MANIFEST.json from the table below (run after adding a check)."""
import json
import os
import subprocess

VERIF = os.path.dirname(os.path.dirname(os.path.abspath(__file__)))

# id -> (built?, technique, level text, level note, design ref)
CHECKS = {
    "C01": (False, "", "", "", "4/C01"),
    "C02": (False, "", "", "", "4/C02"),
    "C03": (False, "", "", "", "4/C03"),
    "C04": (False, "", "", "", "4/C04"),
    "C05": (False, "", "", "", "4/C05"),
    "C06": (False, "", "", "", "4/C06"),
    "C07": (False, "", "", "", "4/C07"),
    "C08": (False, "", "", "", "4/C08"),
    "C09": (False, "", "", "", "4/C09"),
    "C10": (False, "", "", "", "4/C10"),
    "C11": (True,
            "runtime differential monitor: real bpm kernels vs O(nm) reference DP under ASan+UBSan, exhaustive small spaces + seeded random pairs, AVX2 and non-AVX2 builds",
            "Every (text, pattern) pair the workload produces is run through bpm_block, bpm and bpm_256 of the library built from the working tree "
            "(gcc ASan+UBSan, with and without AVX2) and compared with an independent semi-global edit-distance DP; small alphabets are enumerated "
            "completely up to a length bound, block boundaries and the 1024 cap are targeted at random. Held = no mismatch and no sanitizer report on the pairs run.",
            "Trusts the O(nm) reference in drv/bpmdrv.c and the sanitizers; pairs outside the sampled space are not covered.",
            "4/C11"),
    "C12": (False, "", "", "", "4/C12"),
    "C13": (False, "", "", "", "4/C13"),
    "C14": (False, "", "", "", "4/C14"),
    "C15": (False, "", "", "", "4/C15"),
    "C16": (False, "", "", "", "4/C16"),
    "C17": (False, "", "", "", "4/C17"),
}


def hook_commits():
    try:
        out = subprocess.run(["git", "-C", "/repo", "log", "--format=%H %s"], stdout=subprocess.PIPE).stdout.decode()
        return [l.split()[0] for l in out.split("\n") if " verif hooks:" in l]
    except Exception:
        return []


def main():
    m = {
        "version": 1,
        "setup_cmd": "python3 vf/setup.py",
        "hooks": {
            "guard": "KALIGN_VERIF",
            "enable": "vf/build.py compiles /repo/lib/src/*.c (the source_files of lib/CMakeLists.txt) and /repo/src/run_kalign.c directly with "
                      "-DKALIGN_VERIF and links /verif/rt/verif_rt.c, which implements the hooks declared in /repo/lib/src/kalign_verif.h",
            "baseline_off_cmd": "rm -rf /repo/_build && cmake -G Ninja -S /repo -B /repo/_build && cmake --build /repo/_build && ctest --test-dir /repo/_build -j8 --timeout 900",
            "source_commits": hook_commits(),
            "add_only": True,
        },
        "engines": [
            {"name": "vf", "path": "vf/check.py", "serves_properties": sorted(k for k, v in CHECKS.items() if v[0]),
             "kind_free_text": "python harness: builds sanitizer variants of /repo's working tree, drives the real CLI / library through generated "
                               "workloads, runs oracles over outputs, hook event logs and sanitizer reports"},
        ],
        "checks": [],
        "not_applicable": [],
        "notes": "All checks: python3 vf/check.py <ID> --tier quick|thorough; exit 0 held / 1 violation / 2 inconclusive. "
                 "known_findings.txt lists recorded and repaired defects. VERIF_SEED seeds every random choice.",
    }
    for pid, (built, tech, text, note, ref) in sorted(CHECKS.items()):
        if not built:
            m["not_applicable"].append({"property_id": pid, "reason": "check under construction in this session (DESIGN.md section %s); not yet registered" % ref})
            continue
        m["checks"].append({
            "property_id": pid,
            "quick_cmd": "python3 vf/check.py %s --tier quick" % pid,
            "thorough_cmd": "python3 vf/check.py %s --tier thorough" % pid,
            "evidence_file": "evidence/%s.json" % pid,
            "replay_cmd_template": "python3 vf/check.py %s --replay {path}" % pid,
            "engine": "vf",
            "level_claimed": {"category": "exploration", "text": text, "design_ref": "DESIGN.md section " + ref},
            "level_note": note,
            "technique": tech,
        })
    with open(os.path.join(VERIF, "MANIFEST.json"), "w") as fh:
        json.dump(m, fh, indent=1)
    print("MANIFEST.json: %d checks, %d not_applicable" % (len(m["checks"]), len(m["not_applicable"])))


if __name__ == "__main__":
    main()
