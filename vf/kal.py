"""Helpers shared by the behavioural checks: run an alignment through the CLI or the
library driver, parse the result with the independent parsers, route abnormal
terminations into the owning check."""
import os

from vf import common, fmt

TYPES = {"dna": 0, "internal": 1, "rna": 2, "protein": 3, "divergent": 4, None: 5}
ADMISSIBLE = {"dna": ["dna", "internal", "rna", None], "rna": ["dna", "internal", "rna", None], "protein": ["protein", "divergent", None]}


def type_args(word, gpo=None, gpe=None, tgpe=None):
    a = []
    if word:
        a += ["--type", word]
    for k, v in (("gpo", gpo), ("gpe", gpe), ("tgpe", tgpe)):
        if v is not None:
            a += ["--" + k, common.fnum(v)]
    return a


def parse_output(data, format):
    """-> rows [(name, gapped)] using the independent parsers; raises fmt.FormatError"""
    if format in (None, "fasta", "fa"):
        return fmt.parse_fasta(data)
    if format == "clu":
        return fmt.parse_clustal(data)[1]
    if format == "msf":
        return fmt.parse_msf(data)["rows"]
    raise ValueError(format)


def cli_align(ck, paths, recs=None, files=None, word=None, gpo=None, gpe=None, tgpe=None, nthreads=1, format=None,
              to_stdout=False, env=None, ctx=None, stdin_data=None, extra_args=(), timeout=600, cpu=300, verif_log=None):
    """Run the real CLI on recs (written as plain FASTA) or on given files.
    Returns (res, rows|None). Abnormal terminations are reported to ck as violations."""
    if files is None:
        f = ck.tmp(".fa")
        common.write_bytes(f, fmt.write_fasta(recs))
        files = [f]
    args = type_args(word, gpo, gpe, tgpe) + list(extra_args)
    if format:
        args += ["-f", format]
    out = None if to_stdout else ck.tmp(".out")
    res = common.kalign_cli(paths, files, args=args, nthreads=nthreads, out=out, env=env, stdin_data=stdin_data,
                            timeout=timeout, cpu=cpu, verif_log=verif_log)
    c = dict(ctx or {})
    c.update({"input": recs if recs is not None and sum(len(s) for _, s in recs) < 20000 else "(large)", "args": args, "nthreads": nthreads,
              "variant": paths["variant"]})
    if ck.proc_violations(res.proc, c):
        return res, None
    rows = None
    if res.rc == 0 and res.out_bytes is not None:
        try:
            rows = parse_output(res.out_bytes, format)
        except fmt.FormatError as ex:
            ck.violation("output-unparsable:%s" % (format or "fasta"), "independent parser rejects kalign's %s output: %s" % (format or "fasta", ex), c)
            rows = None
    return res, rows


def lib_script(infile, ty, gpo, gpe, tgpe, nthreads, dump=True, writes=(), codes=False):
    s = ["read 0 %s" % infile, "run 0 %d %d %s %s %s" % (nthreads, ty, common.fnum(gpo), common.fnum(gpe), common.fnum(tgpe))]
    if dump:
        s.append("dump 0" + (" codes" if codes else ""))
    for f, path in writes:
        s.append("write 0 %s %s" % (f, path))
    s.append("free 0")
    return s


def dump_rows(d):
    """rows [(name, gapped)] reconstructed from a dump record's gaps[] and residues"""
    rows = []
    for r in d["rows"]:
        if d["aligned"] == 3 and d["alnlen"] > 0:
            rows.append((r["name"], r["seq"]))
        else:
            rows.append((r["name"], r["seq"]))
    return rows


def rows_from_gaps(d):
    """rebuild each row from residues + gaps[] (independent of the seq field after finalise)"""
    out = []
    for r in d["rows"]:
        res = r["seq"].replace("-", "") if d["aligned"] == 3 else r["seq"]
        g = r["gaps"]
        parts = []
        for i, c in enumerate(res):
            parts.append("-" * g[i])
            parts.append(c)
        parts.append("-" * g[len(res)])
        out.append((r["name"], "".join(parts)))
    return out
