#!/usr/bin/env python3
"""Apply a patch to /repo's working tree, run the quick (or thorough) checks of the given
properties, revert.  usage: try_patch.py PATCH ID [ID...] [--tier quick]   (never commits)"""
import os
import subprocess
import sys

VERIF = os.path.dirname(os.path.dirname(os.path.abspath(__file__)))


def main():
    args = [a for a in sys.argv[1:] if not a.startswith("--")]
    tier = "thorough" if "--thorough" in sys.argv else "quick"
    patch, ids = args[0], args[1:]
    st = subprocess.run(["git", "-C", "/repo", "status", "--porcelain", "--untracked-files=no"], stdout=subprocess.PIPE).stdout.decode().strip()
    if st:
        print("refusing: /repo has uncommitted changes:\n" + st)
        return 2
    r = subprocess.run(["git", "-C", "/repo", "apply", os.path.abspath(patch)])
    if r.returncode != 0:
        print("patch does not apply")
        return 2
    res = {}
    try:
        for pid in ids:
            p = subprocess.run([sys.executable, os.path.join(VERIF, "vf", "check.py"), pid, "--tier", tier], stdout=subprocess.PIPE, stderr=subprocess.STDOUT, cwd=VERIF, stdin=subprocess.DEVNULL,
                               env=dict(os.environ, KV_EVIDENCE_DIR=os.path.join(VERIF, "scratch", "matrix_evidence")))
            out = p.stdout.decode(errors="replace")
            keys = [l.strip() for l in out.split("\n") if l.strip().startswith("key=")]
            res[pid] = (p.returncode, keys[:6], out.strip().split("\n")[-1][:200])
    finally:
        subprocess.run(["git", "-C", "/repo", "checkout", "--", "."])
    for pid, (rc, keys, last) in res.items():
        print("%s rc=%d %s" % (pid, rc, "DETECTED" if rc == 1 else ("inconclusive" if rc == 2 else "missed")))
        for k in keys:
            print("    " + k[:220])
        print("    " + last)
    return 0


if __name__ == "__main__":
    sys.exit(main())
