"""Build driver: compiles /repo's *current working tree* into a variant directory.

Every check calls build(variant, ...) at start.  The result is cached on a
content hash of all source files and flags, so an unchanged tree is not
recompiled, while any edit under /repo (or /verif/rt, /verif/drv) triggers a
rebuild.
"""
import hashlib
import os
import re
import shutil
import subprocess
import sys
from concurrent.futures import ThreadPoolExecutor

VERIF = os.path.dirname(os.path.dirname(os.path.abspath(__file__)))
REPO = os.environ.get("KALIGN_REPO", "/repo")
BUILD_ROOT = os.path.join(VERIF, "build")
GUARD = "KALIGN_VERIF"
VERSION = "3.4.1"

COMMON_INC = ["-I%s/lib/include" % REPO, "-I%s/lib/src" % REPO]
COMMON_DEF = ['-DKALIGN_PACKAGE_VERSION="%s"' % VERSION, '-DKALIGN_PACKAGE_NAME="kalign"']

VARIANTS = {
    # name: (compiler, cflags, ldflags, guard_on)
    "asan": ("gcc", ["-O1", "-g", "-fno-omit-frame-pointer", "-fsanitize=address,undefined",
                     "-fno-sanitize-recover=all", "-fopenmp", "-DHAVE_OPENMP", "-mavx2", "-DHAVE_AVX2"],
             ["-fsanitize=address,undefined", "-fopenmp", "-lm", "-lpthread"], True),
    "rel": ("gcc", ["-O2", "-g", "-fopenmp", "-DHAVE_OPENMP", "-mavx2", "-DHAVE_AVX2"],
            ["-fopenmp", "-lm", "-lpthread"], True),
    "noomp": ("gcc", ["-O2", "-g", "-mavx2", "-DHAVE_AVX2"], ["-lm", "-lpthread"], True),
    "noavx": ("gcc", ["-O1", "-g", "-fno-omit-frame-pointer", "-fsanitize=address,undefined",
                      "-fno-sanitize-recover=all", "-fopenmp", "-DHAVE_OPENMP", "-DNOHAVE_AVX2"],
              ["-fsanitize=address,undefined", "-fopenmp", "-lm", "-lpthread"], True),
    "tsan": ("clang-14", ["-O1", "-g", "-fno-omit-frame-pointer", "-fsanitize=thread", "-fopenmp",
                          "-DHAVE_OPENMP", "-mavx2", "-DHAVE_AVX2"],
             ["-fsanitize=thread", "-fopenmp", "-lm", "-lpthread"], False),
    "clangomp": ("clang-14", ["-O2", "-g", "-fopenmp", "-DHAVE_OPENMP", "-mavx2", "-DHAVE_AVX2"],
                 ["-fopenmp", "-lm", "-lpthread"], True),
    "fuzz": ("clang-14", ["-O1", "-g", "-fno-omit-frame-pointer", "-fsanitize=fuzzer-no-link,address,undefined",
                          "-fno-sanitize-recover=all", "-fopenmp", "-DHAVE_OPENMP", "-mavx2", "-DHAVE_AVX2"],
             ["-fsanitize=fuzzer,address,undefined", "-fopenmp", "-lm", "-lpthread"], False),
}

WRAP = ["-Wl,--wrap=malloc,--wrap=calloc,--wrap=realloc,--wrap=free,--wrap=posix_memalign,--wrap=aligned_alloc"]


def lib_sources():
    """source_files of lib/CMakeLists.txt (read from the tree, not hard-coded)."""
    txt = open(os.path.join(REPO, "lib", "CMakeLists.txt")).read()
    m = re.search(r"set\(source_files(.*?)\)", txt, re.S)
    out = []
    for line in m.group(1).split("\n"):
        line = line.split("#")[0].strip()
        if line.endswith(".c"):
            out.append(os.path.join(REPO, "lib", line))
    return out


def _tree_hash(extra):
    h = hashlib.sha256()
    roots = [os.path.join(REPO, "lib"), os.path.join(REPO, "src"),
             os.path.join(VERIF, "rt"), os.path.join(VERIF, "drv")]
    for root in roots:
        for d, dn, fn in sorted(os.walk(root)):
            dn.sort()
            for f in sorted(fn):
                if f.endswith((".c", ".h", ".txt", ".in", ".cpp")):
                    p = os.path.join(d, f)
                    h.update(p.encode())
                    with open(p, "rb") as fh:
                        h.update(fh.read())
    h.update(repr(extra).encode())
    return h.hexdigest()


def _run(cmd):
    p = subprocess.run(cmd, stdout=subprocess.PIPE, stderr=subprocess.STDOUT)
    if p.returncode != 0:
        raise BuildError("build failed: %s\n%s" % (" ".join(cmd), p.stdout.decode(errors="replace")[-4000:]))


class BuildError(Exception):
    pass


def build(variant, tag=None, guard=None, extra_cflags=()):
    """Build variant into /verif/build/<tag or variant>/ ; returns dict of paths."""
    cc, cflags, ldflags, guard_default = VARIANTS[variant]
    if guard is None:
        guard = guard_default
    cflags = list(cflags) + list(extra_cflags)
    if guard:
        cflags.append("-D" + GUARD)
    # one output directory per (variant, source-tree hash): a rebuild after an edit never replaces binaries a concurrently
    # running check is still using; older directories of the variant are pruned
    want = _tree_hash((variant, cc, cflags, ldflags, guard))
    base = tag or variant
    outdir = os.path.join(BUILD_ROOT, "%s-%s" % (base, want[:12]))
    os.makedirs(BUILD_ROOT, exist_ok=True)
    olds = sorted((d for d in os.listdir(BUILD_ROOT) if d.startswith(base + "-") and os.path.isdir(os.path.join(BUILD_ROOT, d)) and d != os.path.basename(outdir)),
                  key=lambda d: os.path.getmtime(os.path.join(BUILD_ROOT, d)))
    for d in olds[:-2]:
        shutil.rmtree(os.path.join(BUILD_ROOT, d), ignore_errors=True)
    os.makedirs(outdir, exist_ok=True)
    # checks may run concurrently: one builder per variant directory at a time
    import fcntl
    lockf = open(os.path.join(BUILD_ROOT, ".lock_%s" % (tag or variant)), "w")
    fcntl.flock(lockf, fcntl.LOCK_EX)
    try:
        return _build_locked(variant, outdir, cc, cflags, ldflags, guard)
    finally:
        fcntl.flock(lockf, fcntl.LOCK_UN)
        lockf.close()


def _build_locked(variant, outdir, cc, cflags, ldflags, guard):
    stamp = os.path.join(outdir, ".stamp")
    want = _tree_hash((variant, cc, cflags, ldflags, guard))
    use_wrap = variant in ("rel", "noomp", "clangomp")
    paths = {
        "dir": outdir,
        "kalign": os.path.join(outdir, "kalign"),
        "kvdrv": os.path.join(outdir, "kvdrv"),
        "bpmdrv": os.path.join(outdir, "bpmdrv"),
        "variant": variant,
        "guard": guard,
    }
    if variant == "fuzz":
        paths["fuzzer"] = os.path.join(outdir, "kfuzz")
    if os.path.exists(stamp) and open(stamp).read() == want and all(
            os.path.exists(p) for k, p in paths.items() if k in ("kalign", "kvdrv", "bpmdrv", "fuzzer")):
        return paths
    # fresh build
    for f in os.listdir(outdir):
        fp = os.path.join(outdir, f)
        if os.path.isfile(fp):
            os.unlink(fp)
    objs = []
    jobs = []
    srcs = lib_sources()
    for s in srcs:
        o = os.path.join(outdir, "lib_" + os.path.basename(s)[:-2] + ".o")
        objs.append(o)
        jobs.append([cc] + cflags + COMMON_INC + COMMON_DEF + ["-w", "-c", s, "-o", o])
    rt_objs = []
    if guard:
        o = os.path.join(outdir, "verif_rt.o")
        rt_objs.append(o)
        # the monitor runtime itself is never sanitizer-instrumented differently: same flags
        jobs.append([cc] + cflags + COMMON_INC + ["-c", os.path.join(VERIF, "rt", "verif_rt.c"), "-o", o])
    alloc_o = os.path.join(outdir, "verif_alloc.o")
    use_wrap = variant in ("rel", "noomp", "clangomp")
    jobs.append([cc] + cflags + ([] if use_wrap else ["-DKV_NOWRAP"]) + ["-c", os.path.join(VERIF, "rt", "verif_alloc.c"), "-o", alloc_o])
    cli_objs = []
    for s in ("run_kalign.c", "parameters.c"):
        o = os.path.join(outdir, "cli_" + s[:-2] + ".o")
        cli_objs.append(o)
        jobs.append([cc] + cflags + COMMON_INC + COMMON_DEF + ["-w", "-c", os.path.join(REPO, "src", s), "-o", o])
    drv_o = os.path.join(outdir, "kvdrv.o")
    jobs.append([cc] + cflags + COMMON_INC + COMMON_DEF + ["-c", os.path.join(VERIF, "drv", "kvdrv.c"), "-o", drv_o])
    bpm_o = os.path.join(outdir, "bpmdrv.o")
    jobs.append([cc] + cflags + COMMON_INC + COMMON_DEF + ["-c", os.path.join(VERIF, "drv", "bpmdrv.c"), "-o", bpm_o])
    fuzz_o = None
    if variant == "fuzz":
        fuzz_o = os.path.join(outdir, "kfuzz.o")
        jobs.append([cc] + cflags + COMMON_INC + COMMON_DEF + ["-c", os.path.join(VERIF, "drv", "kfuzz.c"), "-o", fuzz_o])
    with ThreadPoolExecutor(max_workers=16) as ex:
        list(ex.map(_run, jobs))
    if variant == "fuzz":
        # CLI / drivers are linked without libFuzzer's main
        ld_nofuzz = [f.replace("fuzzer,", "") for f in ldflags]
        _run([cc] + cli_objs + objs + rt_objs + ["-o", paths["kalign"]] + ld_nofuzz)
        _run([cc, drv_o] + objs + rt_objs + [alloc_o] + ["-o", paths["kvdrv"]] + ld_nofuzz)
        _run([cc, bpm_o] + objs + rt_objs + ["-o", paths["bpmdrv"]] + ld_nofuzz)
        _run([cc, fuzz_o] + objs + rt_objs + ["-o", paths["fuzzer"]] + ldflags)
    else:
        _run([cc] + cli_objs + objs + rt_objs + ["-o", paths["kalign"]] + ldflags)
        wrap = WRAP if use_wrap else []
        _run([cc, drv_o] + objs + rt_objs + [alloc_o] + ["-o", paths["kvdrv"]] + wrap + ldflags)
        _run([cc, bpm_o] + objs + rt_objs + ["-o", paths["bpmdrv"]] + ldflags)
    with open(stamp, "w") as fh:
        fh.write(want)
    return paths


def build_ref():
    """reference tools that do not depend on /repo (ref/*.c) -> /verif/build/ref/"""
    outdir = os.path.join(BUILD_ROOT, "ref")
    os.makedirs(outdir, exist_ok=True)
    res = {}
    for name in ("reftool", "c07oracle"):
        src = os.path.join(VERIF, "ref", name + ".c")
        if not os.path.exists(src):
            continue
        exe = os.path.join(outdir, name)
        h = hashlib.sha256(open(src, "rb").read()).hexdigest()
        st = exe + ".stamp"
        if not (os.path.exists(exe) and os.path.exists(st) and open(st).read() == h):
            _run(["gcc", "-O2", "-g", "-Wall", src, "-o", exe, "-lm"])
            open(st, "w").write(h)
        res[name] = exe
    return res


if __name__ == "__main__":
    import time
    for v in sys.argv[1:] or ["asan"]:
        t = time.time()
        p = build(v)
        print(v, "%.1fs" % (time.time() - t), p["dir"])
