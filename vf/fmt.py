"""Independent readers / writers for FASTA, Clustal and MSF, written from the
format definitions (not from kalign's code), plus small alignment utilities."""
import re

GAPCHARS = "-.~*_"


class FormatError(Exception):
    pass


def degap(s):
    return "".join(c for c in s if c.isalpha())


# ------------------------------------------------------------------ FASTA


def write_fasta(recs, width=60, crlf=False, blank_every=0, trailing=""):
    nl = "\r\n" if crlf else "\n"
    out = []
    k = 0
    for name, seq in recs:
        out.append(">" + name + nl)
        if width <= 0:
            out.append(seq + trailing + nl)
        else:
            for i in range(0, len(seq), width):
                out.append(seq[i:i + width] + trailing + nl)
                k += 1
                if blank_every and k % blank_every == 0:
                    out.append(nl)
            if not seq:
                pass
    return "".join(out)


def parse_fasta(data, strict_width=None):
    """data: bytes or str. Returns list of (name, seq). With strict_width, enforce the wrapping
    rule: every sequence line except the last of a record is exactly strict_width columns,
    the last one 1..strict_width, no empty records."""
    if isinstance(data, bytes):
        data = data.decode("latin-1")
    recs = []
    name = None
    lines_of = []
    if data and not data.endswith("\n"):
        raise FormatError("fasta: file does not end with a newline")
    for ln in data.split("\n")[:-1] if data else []:
        if ln.startswith(">"):
            if name is not None:
                recs.append((name, lines_of))
            name = ln[1:]
            lines_of = []
        else:
            if name is None:
                raise FormatError("fasta: sequence line before first header: %r" % ln[:40])
            lines_of.append(ln)
    if name is not None:
        recs.append((name, lines_of))
    out = []
    for name, ls in recs:
        if strict_width:
            if not ls:
                raise FormatError("fasta: empty record %r" % name[:40])
            for i, l in enumerate(ls):
                if i < len(ls) - 1 and len(l) != strict_width:
                    raise FormatError("fasta: record %r line %d has %d columns, expected %d" % (name[:40], i, len(l), strict_width))
                if i == len(ls) - 1 and not (1 <= len(l) <= strict_width):
                    raise FormatError("fasta: record %r last line has %d columns" % (name[:40], len(l)))
        out.append((name, "".join(ls)))
    return out


# ------------------------------------------------------------------ Clustal


def write_clustal(recs, width=60, header="CLUSTAL W (1.83) multiple sequence alignment", pad=None, gap="-",
                  consensus=False, counts=False, crlf=False):
    nl = "\r\n" if crlf else "\n"
    maxn = max(len(n) for n, _ in recs)
    pad = maxn + 6 if pad is None else max(pad, maxn + 1)
    L = len(recs[0][1])
    out = [header + nl, nl, nl]
    done = [0] * len(recs)
    for off in range(0, max(L, 1), width):
        for k, (n, s) in enumerate(recs):
            chunk = s[off:off + width].replace("-", gap)
            line = n + " " * (pad - len(n)) + chunk
            if counts:
                done[k] += len(degap(chunk))
                line += " %d" % done[k]
            out.append(line + nl)
        if consensus:
            out.append(" " * pad + "".join("*" if i % 3 == 0 else " " for i in range(len(recs[0][1][off:off + width]))) + nl)
        out.append(nl)
    return "".join(out)


def parse_clustal(data):
    """Strict Clustal reader. Returns (header_line, rows[(name, seq)], blocks[list of widths])."""
    if isinstance(data, bytes):
        data = data.decode("latin-1")
    lines = data.split("\n")
    if lines and lines[-1] == "":
        lines = lines[:-1]
    if not lines:
        raise FormatError("clustal: empty file")
    header = lines[0]
    i = 1
    blocks = []
    cur = []
    for ln in lines[1:]:
        if ln.strip() == "":
            if cur:
                blocks.append(cur)
                cur = []
            continue
        if ln[0].isspace():
            # consensus line
            continue
        parts = ln.split()
        if len(parts) < 2:
            raise FormatError("clustal: malformed line %r" % ln[:60])
        cur.append((parts[0], parts[1], ln))
    if cur:
        blocks.append(cur)
    if not blocks:
        raise FormatError("clustal: no blocks")
    names = [n for n, _, _ in blocks[0]]
    if len(set(names)) != len(names):
        # duplicate names are legal for kalign's input; identify rows by position
        pass
    seqs = [[] for _ in names]
    widths = []
    for b in blocks:
        if [n for n, _, _ in b] != names:
            raise FormatError("clustal: block does not list every sequence once in order (%d rows vs %d)" % (len(b), len(names)))
        w = set(len(s) for _, s, _ in b)
        if len(w) != 1:
            raise FormatError("clustal: rows of one block have different widths %s" % sorted(w))
        # the residues must start in the same column in every row of the block
        starts = set(ln.index(s, len(n)) for n, s, ln in b)
        if len(starts) != 1:
            raise FormatError("clustal: residue columns not aligned within a block")
        widths.append(w.pop())
        for k, (_, s, _) in enumerate(b):
            seqs[k].append(s)
    return header, [(n, "".join(s)) for n, s in zip(names, seqs)], widths


# ------------------------------------------------------------------ MSF


def gcg_checksum(s):
    chk = 0
    for i, c in enumerate(s):
        chk = (chk + (i % 57 + 1) * ord(c.upper())) % 10000
    return chk


def write_msf(recs, protein=True, width=50, group=10, gap=".", crlf=False, pad=None):
    nl = "\r\n" if crlf else "\n"
    L = len(recs[0][1])
    maxn = max(len(n) for n, _ in recs)
    pad = maxn + 2 if pad is None else max(pad, maxn + 1)
    rows = [(n, s.replace("-", gap)) for n, s in recs]
    checks = [gcg_checksum(s) for _, s in rows]
    out = ["!!%s_MULTIPLE_ALIGNMENT 1.0" % ("AA" if protein else "NA") + nl, nl,
           " test.msf  MSF: %d  Type: %s  January 01, 2000 12:00  Check: %d .." % (L, "P" if protein else "N", sum(checks) % 10000) + nl, nl]
    for (n, s), c in zip(rows, checks):
        out.append(" Name: %s Len: %5d  Check: %4d  Weight:  1.00" % (n.ljust(maxn), L, c) + nl)
    out += [nl, "//" + nl, nl]
    for off in range(0, max(L, 1), width):
        for n, s in rows:
            chunk = s[off:off + width]
            if group:
                chunk = " ".join(chunk[i:i + group] for i in range(0, len(chunk), group))
            out.append(n + " " * (pad - len(n)) + chunk + nl)
        out.append(nl)
    return "".join(out)


def parse_msf(data):
    """Strict MSF reader. Returns dict(first, msf_len, type, check, names[(name,len,check)], rows[(name,seq)], widths)."""
    if isinstance(data, bytes):
        data = data.decode("latin-1")
    lines = data.split("\n")
    if lines and lines[-1] == "":
        lines = lines[:-1]
    if not lines:
        raise FormatError("msf: empty")
    res = {"first": lines[0], "names": []}
    i = 0
    sep = None
    for i, ln in enumerate(lines):
        if ln.strip() == "//":
            sep = i
            break
        m = re.search(r"MSF:\s*(\d+)\s+Type:\s*(\S)\s.*Check:\s*(\d+)\s*\.\.", ln)
        if m and "Name:" not in ln:
            res["msf_len"] = int(m.group(1))
            res["type"] = m.group(2)
            res["check"] = int(m.group(3))
        m = re.match(r"\s*Name:\s*(\S+)\s+Len:\s*(\d+)\s+Check:\s*(\d+)\s+Weight:\s*([0-9.]+)\s*$", ln)
        if m:
            res["names"].append((m.group(1), int(m.group(2)), int(m.group(3))))
        elif "Name:" in ln:
            raise FormatError("msf: malformed Name line %r" % ln[:80])
    if sep is None:
        raise FormatError("msf: no // separator")
    if "msf_len" not in res:
        raise FormatError("msf: no 'MSF: n Type: x Check: c ..' line")
    blocks = []
    cur = []
    for ln in lines[sep + 1:]:
        if ln.strip() == "":
            if cur:
                blocks.append(cur)
                cur = []
            continue
        parts = ln.split()
        if ln[0].isspace():
            continue  # coordinate line
        cur.append((parts[0], "".join(parts[1:])))
    if cur:
        blocks.append(cur)
    names = [n for n, _, _ in res["names"]]
    seqs = [[] for _ in names]
    widths = []
    for b in blocks:
        if [n for n, _ in b] != names:
            raise FormatError("msf: block does not list every sequence once in header order")
        w = set(len(s) for _, s in b)
        if len(w) != 1:
            raise FormatError("msf: rows of one block differ in width")
        widths.append(w.pop())
        for k, (_, s) in enumerate(b):
            seqs[k].append(s)
    res["rows"] = [(n, "".join(s)) for n, s in zip(names, seqs)]
    res["widths"] = widths
    return res


# ------------------------------------------------------------------ alignment utilities


def columns(rows):
    """rows: list of (name, gapped) -> set of frozenset((name, residue_index)) for columns with >= 1 residue"""
    if not rows:
        return set()
    L = len(rows[0][1])
    idx = [0] * len(rows)
    out = set()
    for c in range(L):
        m = []
        for r, (n, s) in enumerate(rows):
            if s[c] != "-":
                m.append((n, idx[r]))
                idx[r] += 1
        if m:
            out.add(frozenset(m))
    return out


def gap_pattern(rows):
    return [re.sub(r"[A-Za-z]", "x", s) for _, s in rows]


def check_alignment(inputs, rows, what="alignment"):
    """C01 oracle. inputs: list of (name, residues) for the non-empty input sequences in input order;
    rows: list of (name, gapped row). Returns list of error strings (empty = ok)."""
    errs = []
    if len(rows) != len(inputs):
        errs.append("%s: %d rows for %d non-empty input sequences" % (what, len(rows), len(inputs)))
        return errs
    L = None
    for k, ((n_in, s_in), (n_out, s_out)) in enumerate(zip(inputs, rows)):
        if n_out != n_in:
            errs.append("%s: row %d is named %r, input %d is %r" % (what, k, n_out[:50], k, n_in[:50]))
            break
        if L is None:
            L = len(s_out)
        elif len(s_out) != L:
            errs.append("%s: row %d has length %d, row 0 has %d" % (what, k, len(s_out), L))
            break
        bad = [c for c in set(s_out) if not (c == "-" or c.isalpha())]
        if bad:
            errs.append("%s: row %d contains characters %r" % (what, k, bad[:5]))
            break
        if s_out.replace("-", "") != s_in:
            d = s_out.replace("-", "")
            p = next((i for i in range(min(len(d), len(s_in))) if d[i] != s_in[i]), min(len(d), len(s_in)))
            errs.append("%s: row %d de-gapped (%d residues) differs from input (%d residues) at residue %d: %r vs %r" % (
                what, k, len(d), len(s_in), p, d[p:p + 12], s_in[p:p + 12]))
            break
    if not errs and L is not None and rows:
        # all-gap columns
        allgap = None
        cols_ok = bytearray(L)
        for _, s in rows:
            for i, c in enumerate(s):
                if c != "-":
                    cols_ok[i] = 1
        for i in range(L):
            if not cols_ok[i]:
                allgap = i
                break
        if allgap is not None:
            errs.append("%s: column %d consists of gaps only" % (what, allgap))
        if L == 0:
            errs.append("%s: empty rows" % what)
    return errs
