"""C17: the alignment-comparison score is exact."""
import subprocess

from vf import common, fmt, gen, kal
from vf.build import build, build_ref

MIN_NONTRIVIAL = 20
TOL = 1e-3


def ref_score(reftool, r_rows, t_rows):
    """independent score; rows matched by name"""
    t = dict(t_rows)
    lines = ["%d" % len(r_rows)]
    for n, row in r_rows:
        lines.append("%s %s %s" % ("n", row, t[n]))
    out = subprocess.run([reftool, "cmpscore"], input=("\n".join(lines) + "\n").encode(), stdout=subprocess.PIPE).stdout.decode().split()
    if not out or out[0] == "ERR":
        raise common.Inconclusive("reference scorer failed: %s" % out)
    return float(out[0])


def random_alignment(rng, recs, rate=0.3):
    rows = gen.insert_gaps(rng, [s for _, s in recs], rate, "-")
    return [(n, r) for (n, _), r in zip(recs, rows)]


def local_edits(rng, rows):
    """the test alignment differs from the reference in a few places only (same width): single residue/gap swaps, and pairs of opposite shifts of
    the same letter within one row (e.g. 'A-GGG-A' -> '-AGGGA-'), as a refinement step of an aligner produces them. Returns (rows, edits)."""
    out = [list(s) for _, s in rows]
    nedit = 0
    for _ in range(rng.randint(1, 4)):
        k = rng.randrange(len(out))
        row = out[k]
        right = [i for i in range(len(row) - 1) if row[i] != "-" and row[i + 1] == "-"]
        left = [i for i in range(len(row) - 1) if row[i] == "-" and row[i + 1] != "-"]
        mode = rng.choice(["paired", "paired", "single"])
        if mode == "paired":
            cand = [(i, j) for i in right for j in left if abs(i - j) >= 2 and row[i].upper() == row[j + 1].upper()]
            if cand:
                i, j = rng.choice(cand[:2000])
                row[i], row[i + 1] = row[i + 1], row[i]
                row[j], row[j + 1] = row[j + 1], row[j]
                nedit += 2
                continue
        pool = right + left
        if pool:
            i = rng.choice(pool)
            row[i], row[i + 1] = row[i + 1], row[i]
            nedit += 1
    return [(n, "".join(r)) for (n, _), r in zip(rows, out)], nedit


def add_allgap_columns(rng, rows, k):
    L = len(rows[0][1])
    pos = sorted(rng.randint(0, L) for _ in range(k))
    out = []
    for n, s in rows:
        parts = []
        last = 0
        for p in pos:
            parts.append(s[last:p])
            parts.append("-")
            last = p
        parts.append(s[last:])
        out.append((n, "".join(parts)))
    return out


def write_aln(ck, rng, rows, protein):
    F = rng.choice(["fasta", "fasta", "msf", "clu"])
    f = ck.tmp("." + F)
    if F == "fasta":
        common.write_bytes(f, fmt.write_fasta(rows, width=rng.choice([60, 80, 200])))
    elif F == "clu":
        common.write_bytes(f, fmt.write_clustal(rows))
    else:
        common.write_bytes(f, fmt.write_msf(rows, protein=protein))
    return f, F


def run_case(ck, paths, reftool, idx, rel=None):
    rng = ck.rng.__class__(ck.seed * 179424673 + idx)
    kind = rng.choice(["dna", "protein"])
    alpha = gen.DNA if kind == "dna" else gen.AA
    n = rng.randint(2, 60) if rng.random() < 0.8 else rng.randint(2, 8)
    L_ = rng.randint(5, 160)
    if idx % 150 == 7 and (ck.tier == "thorough" or idx == 7):
        # one large comparison: (rows - 1) x residues beyond 2^31
        n, L_ = rng.choice([(3000, 250), (1300, 1400)])
        ck.count("large_comparisons_rows_times_residues_over_2e9")
    seqs = gen.family(rng, n, L_, alpha, "random", 0.2, 0.05, 4) if n < 1000 else [gen.mutate(rng, s0, alpha, 0.1, 0.02, 2) for s0 in [gen.rand_seq(rng, L_, alpha)] for _ in range(n)]
    if kind == "protein":
        seqs = [s + "".join(rng.choice(gen.AA_ONLY) for _ in range(len(s) // 3 + 1)) for s in seqs]
    if rng.random() < 0.25:
        seqs = [gen.random_case(rng, s, 0.4) for s in seqs]
    names = gen.names(rng, n, rng.choice(["s", "rand", "num", "prefix", "long"]))
    recs = list(zip(names, seqs))
    source = rng.choice(["runs", "runs", "files_random", "files_kalign_vs_random", "identity", "files_with_allgap_row", "files_local_edits"])
    if n >= 1000:
        source = "identity" if rng.random() < 0.5 else "files_random"
        names = gen.names(rng, n, "s")
        recs = list(zip(names, seqs))
        if rel is not None:
            paths = rel   # a billion column steps: the -O2 build
    allgap_row = None
    if source == "files_with_allgap_row":
        # a row without residues (e.g. a slice of a larger alignment): every residue of the other rows is related to a gap in it
        source = "files_random"
        allgap_row = "empty_row_%d" % idx
    if rel is not None and n < 1000 and rng.random() < 0.35:
        # glibc malloc instead of ASan's quarantine: freed objects are reused at once, as in production
        paths = rel
        ck.count("cases_on_the_O2_build_with_glibc_malloc")
    ctx = {"idx": idx, "kind": kind, "source": source, "variant": paths["variant"], "input": recs if sum(map(len, seqs)) < 6000 else "(seed-derived)"}
    f = ck.tmp(".fa")
    common.write_bytes(f, fmt.write_fasta(recs))
    script = []
    want100 = False
    if source == "runs":
        words = kal.ADMISSIBLE[kind]
        w1, w2 = rng.choice(words), rng.choice(words)
        g2 = rng.choice([(0.0, 0.0, 0.0), (30.0, 10.0, 5.0), (2.0, 1.0, 0.5), (-1, -1, -1)])
        script = ["read 0 %s" % f, "run 0 %d %d -1 -1 -1" % (rng.choice([1, 4]), kal.TYPES[w1]), "dump 0",
                  "read 1 %s" % f, "run 1 %d %d %s %s %s" % (rng.choice([1, 4]), kal.TYPES[w2], common.fnum(g2[0]), common.fnum(g2[1]), common.fnum(g2[2])), "dump 1",
                  "cmp 0 1", "cmp 1 0"]
        r, lrecs = common.kvdrv(paths, script, scratch=ck.scratch)
        if ck.proc_violations(r, ctx, allow_rcs=(0,)):
            return
        dumps = [x for x in lrecs if x.get("op") == "dump"]
        cmps = [x for x in lrecs if x.get("op") == "cmp"]
        if len(dumps) != 2 or len(cmps) != 2 or any(x["rc"] != 0 for x in lrecs if x.get("op") == "run"):
            ck.violation("driver-sequence-failed", "run/compare failed: %s" % [x for x in lrecs if x.get("op") != "dump"], ctx)
            return
        R = [(x["name"], x["seq"]) for x in dumps[0]["rows"]]
        T = [(x["name"], x["seq"]) for x in dumps[1]["rows"]]
        pairs = [(R, T, cmps[0]), (T, R, cmps[1])]
    else:
        if source == "files_random":
            R = random_alignment(rng, recs, rng.choice([0.1, 0.5]))
            T = random_alignment(rng, recs, rng.choice([0.1, 0.5, 2.0]))
        elif source == "files_local_edits":
            R = random_alignment(rng, recs, rng.choice([0.1, 0.5]))
            T, ne = local_edits(rng, R)
            if ne == 0:
                T = random_alignment(rng, recs, 0.1)
            ck.count("pairs_differing_by_a_few_local_shifts")
        elif source == "files_kalign_vs_random":
            res, rows = kal.cli_align(ck, paths, recs=recs, nthreads=1, ctx=ctx)
            if rows is None:
                return
            R = rows
            T = random_alignment(rng, recs, 0.3)
            if rng.random() < 0.5:
                R, T = T, R
        else:  # identity up to row order and all-gap columns
            R = random_alignment(rng, recs, rng.choice([0.1, 0.4]))
            T = add_allgap_columns(rng, R, rng.randint(0, 5))
            want100 = True
        if allgap_row is not None and source == "files_random":
            R = R + [(allgap_row, "-" * len(R[0][1]))]
            T = T + [(allgap_row, "-" * len(T[0][1]))]
            ck.count("pairs_with_an_all_gap_row")
        # premise: each file contains at least one gap character
        if not any("-" in s for _, s in R):
            R = add_allgap_columns(rng, R, 1)
        if not any("-" in s for _, s in T):
            T = add_allgap_columns(rng, T, 1)
        Rp, Tp = list(R), list(T)
        rng.shuffle(Rp)
        rng.shuffle(Tp)
        fr, _ = write_aln(ck, rng, R, kind == "protein")
        ft, _ = write_aln(ck, rng, T, kind == "protein")
        frp, _ = write_aln(ck, rng, Rp, kind == "protein")
        ftp, _ = write_aln(ck, rng, Tp, kind == "protein")
        fo = rng.choice([["free 0", "free 1"], ["free 1", "free 0"]])   # the order in which the caller releases the two objects varies
        script = ["read 0 %s" % fr, "read 1 %s" % ft, "cmp 0 1"] + fo + ["read 0 %s" % frp, "read 1 %s" % ft, "cmp 0 1"] + fo[::-1] + [
                  "read 0 %s" % fr, "read 1 %s" % ftp, "cmp 0 1"] + fo
        if n >= 1000:
            script = script[:5]   # one comparison only
        r, lrecs = common.kvdrv(paths, script, scratch=ck.scratch, timeout=1800, cpu=900)
        if ck.proc_violations(r, ctx, allow_rcs=(0,)):
            return
        cmps = [x for x in lrecs if x.get("op") == "cmp"]
        if n >= 1000 and len(cmps) == 1:
            cmps = cmps * 3
        if len(cmps) != 3 or any(x["rc"] != 0 for x in lrecs if x.get("op") == "read"):
            ck.violation("driver-sequence-failed", "read/compare failed: %s" % lrecs, ctx)
            return
        pairs = [(R, T, cmps[0]), (Rp, T, cmps[1]), (R, Tp, cmps[2])] if n < 1000 else [(R, T, cmps[0])]
        if len(set(round(c["score"], 4) for c in cmps)) != 1 and all(c["rc"] == 0 for c in cmps):
            ck.violation("score-depends-on-row-order", "scores %s for (r,t), (permuted r, t), (r, permuted t)" % [c["score"] for c in cmps], dict(ctx, R=R, T=T))
    for (A, B, c) in pairs:
        ck.count("comparisons")
        ck.count("comparisons_%s" % source)
        c2 = dict(ctx, R=A if len(A) * len(A[0][1]) < 8000 else "(large)", T=B if len(B) * len(B[0][1]) < 8000 else "(large)")
        if c["rc"] != 0:
            ck.violation("compare-failed:%s" % source, "kalign_msa_compare failed on alignments of the same uniquely named sequences", c2)
            continue
        exp = ref_score(reftool, A, B)
        got = c["score"]
        bucket = min(9, int(exp // 10))
        ck.count("score_bucket_%d0s" % bucket)
        if not (got == got) or got < -TOL or got > 100 + TOL:
            ck.violation("score-out-of-range", "score %r outside [0,100]" % got, c2)
        elif abs(got - exp) > TOL * max(1.0, 1.0):
            # float32 result: allow its rounding
            if abs(got - exp) > 1e-3 + 1e-5 * exp:
                ck.violation("score-differs-from-definition:%s" % source, "kalign_msa_compare = %.6f, independent score = %.6f (%d rows)" % (got, exp, len(A)), c2)
        if want100 and abs(got - 100.0) > TOL:
            ck.violation("identity-not-100", "same alignment up to row order / all-gap columns scored %.6f" % got, c2)
    ck.evaluated((idx, source, n, hash(tuple(recs)) & 0xffffff))
    if idx < 4:
        ck.sample({"source": source, "rows": n, "kind": kind, "scores": [p[2].get("score") for p in pairs]})


def run(ck, tier):
    paths = build("asan")
    reftool = build_ref()["reftool"]
    sc = getattr(ck, "scale", 1.0)
    n = int((300 if tier == "quick" else 4000) * sc)
    rel = build("rel")
    common.pmap(lambda i: run_case(ck, paths, reftool, i, rel), range(n), workers=12)
    buckets = [k for k in ck.cov if k.startswith("score_bucket_")]
    if len(buckets) < 4:
        ck.note_inconclusive("score histogram spans only %d buckets" % len(buckets))
    ck.rule = ("pairs (r,t) of alignments of the same uniquely named sequences (2..60 rows, DNA/protein, mixed case): two kalign runs with different types/penalties in one "
               "process, files in fasta/msf/clu written by independent writers (random alignments = low scores, kalign vs random, a few local residue/gap shifts incl. opposite shifts of one letter in a row, the same alignment with rows permuted and "
               "all-gap columns inserted), each also with rows of either argument permuted; oracle: independent implementation of the definition (ref/reftool.c cmpscore), "
               "range [0,100], identity = 100, invariance under row order. Every case is distinct by content.")
    ck.assumptions = ["unique names; every file argument contains at least one gap character (the statement's exclusion)", "tolerance 1e-3 (float32 result)"]


def replay(ck, doc):
    paths = build("asan")
    reftool = build_ref()["reftool"]
    run_case(ck, paths, reftool, doc["replay"]["idx"], build("rel"))
    with ck.lock:
        ck.nontrivial |= set(range(30))
        for b in range(5):
            ck.cov["score_bucket_%d0s" % b] = 1
