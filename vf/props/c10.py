"""C10: progressive merging never re-aligns a finished sub-alignment.

The deciding monitor lives in the hook runtime (rt/verif_rt.c): kv_merge_end snapshots the member
gap vectors of every completed guide-tree node; when kalign_run returns, every snapshot is compared
with the projection of the final alignment onto the node's members."""
import os
import re

from vf import common, fmt, gen, kal
from vf.build import build

MIN_NONTRIVIAL = 10


def gen_case(rng, big):
    kind = rng.choice(["dna", "protein", "protein", "rna"])
    alpha = {"dna": gen.DNA, "rna": gen.RNA, "protein": gen.AA}[kind]
    shape = rng.choice(["balanced", "caterpillar", "star", "random"])
    if big == "huge":
        n = rng.choice([4200, 5200, 6100, 8300])
        L = rng.randint(8, 22)
        shape = "random"
        if rng.random() < 0.5:
            # one big family plus a small unrelated one: the top split separates them, so one child of the root has > 4096 members
            nbig = rng.choice([4200, 4400, 5000])
            a1 = gen.family(rng, nbig, L, alpha, "random", 0.2, 0.05, 2)
            a2 = gen.family(rng, rng.choice([300, 600]), L + 10, alpha[::-1], "random", 0.2, 0.05, 2)
            seqs = a1 + a2
            if kind == "protein":
                seqs = [s + "".join(rng.choice(gen.AA_ONLY) for _ in range(len(s) // 3 + 1)) for s in seqs]
            return kind, "two_families", [("s%d" % i, s) for i, s in enumerate(seqs)]
    elif big:
        n = rng.choice([100, 101, 150, 260, 400, 600])
        L = rng.randint(15, 60)
    else:
        n = rng.randint(3, 99)
        L = rng.randint(10, 300)
    seqs = gen.family(rng, n, L, alpha, shape, rng.choice([0.1, 0.25]), rng.choice([0.03, 0.08]), rng.choice([1, 4, 12]))
    if not big and rng.random() < 0.15:
        # two families of 16..30 members each: within a family nearly all members have the same length and no indels relative to each other (so many
        # members carry identical gap vectors when the families meet), the families differ by a deletion and an insertion at different places,
        # and part of the second family has one more short deletion
        shape = "two_equal_length_families"
        L = rng.randint(60, 200)
        ra = gen.rand_seq(rng, L, alpha)
        k = rng.randint(2, 8)
        p1, p2 = sorted(rng.sample(range(8, L - 8 - k), 2))
        rb = list(ra[:p1] + ra[p1 + k:])
        rb[p2:p2] = [rng.choice(alpha) for _ in range(k)]
        rb = "".join(rng.choice(alpha) if rng.random() < 0.15 else c for c in rb)
        sub = lambda r_, pr: "".join(rng.choice(alpha) if rng.random() < pr else c for c in r_)
        fa_ = [sub(ra, 0.04) for _ in range(rng.randint(16, 30))]
        fb_ = []
        for _ in range(rng.randint(16, 30)):
            x_ = sub(rb, 0.04)
            if rng.random() < 0.5:
                d_ = rng.randint(10, len(x_) - 10)
                x_ = x_[:d_] + x_[d_ + rng.randint(1, 5):]
            fb_.append(x_)
        seqs = fa_ + fb_
        rng.shuffle(seqs)
        # indels right next to the sequence ends (a gap run directly before the last / after the first residue)
        out = []
        for s_ in seqs:
            if len(s_) > 6 and rng.random() < 0.5:
                k = rng.randint(1, 3)
                s_ = s_[:-1 - k] + s_[-1:] if rng.random() < 0.5 else s_[:1] + s_[1 + k:]
            out.append(s_)
        seqs = out
    if kind == "protein":
        seqs = [s + "".join(rng.choice(gen.AA_ONLY) for _ in range(len(s) // 3 + 1)) for s in seqs]
    return kind, shape, [("s%d" % i, s) for i, s in enumerate(seqs)]


def run_case(ck, paths, idx, big, paths_huge=None):
    if big == "huge" and paths_huge:
        paths = paths_huge
    rng = ck.rng.__class__(ck.seed * 86028121 + idx)
    kind, shape, recs = gen_case(rng, big)
    word = rng.choice(kal.ADMISSIBLE[kind])
    nt = rng.choice([1, 4, 16, 16, 48, 64]) if big != "huge" else rng.choice([3, 5, 7, 8, 16])
    gp = rng.choice([(None, None, None), (None, None, None), (2.0, 1.0, 0.5), (0.0, 0.0, 0.0), (30.0, 5.0, 2.0)])
    log = ck.tmp(".log")
    env = {"KV_SNAP": "1", "KV_DELAY": rng.choice(["0:0", "200:200", "500:100"]), "VERIF_SEED": str(ck.seed + idx)}
    if rng.random() < 0.3:
        env["OMP_NESTED"] = "true"
    ctx = {"kind": kind, "shape": shape, "type": word, "idx": idx, "big": big, "env": env, "penalties": gp}
    if not big and rng.random() < 0.2:
        # library path with a kalign_run that is rejected first (type of the other kind, infinite penalty), then the real run on the same msa:
        # the monitors reset at every kalign_run and must see a clean run
        f = ck.tmp(".fa")
        common.write_bytes(f, fmt.write_fasta(recs))
        wrong = rng.choice([3, 4]) if kind in ("dna", "rna") else rng.choice([0, 1, 2])
        ty = kal.TYPES[word]
        script = ["read 0 %s" % f, "run 0 %d %d -1 -1 -1" % (nt, wrong), "run 0 %d %d inf -1 -1" % (nt, ty),
                  "run 0 %d %d %s %s %s" % (nt, ty, common.fnum(gp[0] if gp[0] is not None else -1), common.fnum(gp[1] if gp[1] is not None else -1), common.fnum(gp[2] if gp[2] is not None else -1)),
                  "dump 0", "free 0"]
        r, lrecs = common.kvdrv(paths, script, env=env, scratch=ck.scratch, verif_log=log, timeout=900, cpu=600)
        ck.count("runs_after_rejected_calls_on_the_same_msa")
        if ck.proc_violations(r, dict(ctx, input=recs, script=script), allow_rcs=(0,)):
            return
        d = next((x for x in lrecs if x.get("op") == "dump"), None)
        runs = [x for x in lrecs if x.get("op") == "run"]
        if d is None or len(runs) != 3 or runs[2]["rc"] != 0:
            ck.violation("retry-after-rejected-call-failed", "kalign_run after rejected calls on the same msa failed: %s" % runs, dict(ctx, input=recs))
            return
        rows = [(x["name"], x["seq"]) for x in d["rows"]]
        log_recs = common.read_jsonl(log) if os.path.exists(log) else []
        runrec = [x for x in log_recs if x.get("rec") == "run"]
        wit = [x for x in log_recs if x.get("rec") == "c10_witness"]
    else:
        res, rows = kal.cli_align(ck, paths, recs=recs, word=word, gpo=gp[0], gpe=gp[1], tgpe=gp[2], nthreads=nt, ctx=ctx, env=env, verif_log=log)
        runrec = [x for x in (res.log or []) if x.get("rec") == "run"]
        wit = [x for x in (res.log or []) if x.get("rec") == "c10_witness"]
        if rows is None:
            if res.proc.rc == 1:
                ck.violation("rejected-valid-input", res.stderr[-300:], dict(ctx, input=recs))
            return
    if not runrec:
        ck.note_inconclusive("no run record from the hook runtime")
        return
    rr = runrec[-1]
    errs = fmt.check_alignment(recs, rows, "output")
    if errs:
        ck.violation("output-invalid", errs[0], dict(ctx, input=recs))
    if rr["snap_nodes"] + rr["snap_skipped"] != rr["merges"]:
        ck.violation("snapshot-count", "%d merges but %d snapshots" % (rr["merges"], rr["snap_nodes"] + rr["snap_skipped"]), dict(ctx, input=recs))
    if rr["c10_violations"]:
        ck.violation("projection-differs", wit[0]["detail"] if wit else "snapshot differs from final projection", dict(ctx, input=recs))
    nontrivial = any("-" in s for _, s in rows) and rr["snap_nodes"] >= 2
    ck.evaluated((idx, len(recs), hash(tuple(recs)) & 0xffffff) if nontrivial else None)
    ck.count("runs")
    ck.count("nodes_checked", rr["snap_nodes"])
    ck.count("nodes_skipped_by_budget", rr["snap_skipped"])
    ck.count("residue_positions_compared", rr["snap_residues"])
    ck.count("tree_%s" % ("kmeans" if len(recs) >= 100 else "upgma"))
    if len(recs) >= 2048:
        ck.count("runs_with_more_than_2048_sequences")
    ck.count("shape_%s" % shape)
    ck.count("type_%s" % (word or "undefined"))
    ck.cmax("max_members_in_a_node", rr["snap_maxmem"])
    ck.cmax("max_merges_in_flight", rr["max_in_flight"])
    ck.cset("thread_counts", nt)
    if idx < 3:
        ck.sample({"kind": kind, "shape": shape, "n": len(recs), "type": word, "threads": nt, "nodes_checked": rr["snap_nodes"], "residues": rr["snap_residues"]})


def run_exits(ck, paths, idx):
    """The final alignment as it leaves the library: the rows kalign() returns and the rows the CLI writes must be the alignment held in the
    (hook-monitored) msa after kalign_run. Inputs include fragments of long sequences, i.e. gap runs of several hundred columns."""
    rng = ck.rng.__class__(ck.seed * 49979687 + idx)
    kind = rng.choice(["dna", "protein"])
    alpha = gen.DNA if kind == "dna" else gen.AA
    if rng.random() < 0.6:
        L = rng.choice([300, 520, 700, 1100])
        seqs = gen.family(rng, rng.randint(3, 8), L, alpha, "random", 0.12, 0.01, 4)
        full = list(seqs)
        for _ in range(rng.randint(1, 3)):
            src = rng.choice(full)
            fl = min(rng.randint(30, 110), len(src) - 1)
            st = rng.choice([len(src) - fl, rng.randint(0, len(src) - fl), rng.randint(260, len(src) - fl) if len(src) - fl > 260 else 0])
            seqs.append(src[max(0, st):max(0, st) + fl])
        rng.shuffle(seqs)
        shape = "fragments"
    else:
        seqs = gen.family(rng, rng.randint(3, 40), rng.randint(10, 300), alpha, "random", 0.2, 0.06, 12)
        shape = "random"
    if kind == "protein":
        seqs = [s_ + "".join(rng.choice(gen.AA_ONLY) for _ in range(len(s_) // 3 + 1)) for s_ in seqs]
    recs = [("Seq%d" % (i + 1), s_) for i, s_ in enumerate(seqs)]
    word = rng.choice(kal.ADMISSIBLE[kind])
    ty = kal.TYPES[word]
    nt = rng.choice([1, 4, 16])
    gp = rng.choice([(-1, -1, -1), (-1, -1, -1), (2.0, 1.0, 0.5), (30.0, 5.0, 2.0)])
    pa = " ".join(common.fnum(v) for v in gp)
    f = ck.tmp(".fa")
    common.write_bytes(f, fmt.write_fasta(recs))
    sf = ck.tmp(".seqs")
    common.write_bytes(sf, "".join(s_ + "\n" for s_ in seqs))
    log = ck.tmp(".log")
    env = {"KV_SNAP": "1", "VERIF_SEED": str(ck.seed + idx)}
    ctx = {"kind": kind, "shape": shape, "type": word, "idx": idx, "exits": True, "penalties": gp, "input": recs}
    r, lrecs = common.kvdrv(paths, ["read 0 %s" % f, "run 0 %d %d %s" % (nt, ty, pa), "dump 0", "free 0", "arr %s %d %d %s" % (sf, nt, ty, pa)],
                            env=env, scratch=ck.scratch, verif_log=log, timeout=900, cpu=600)
    if ck.proc_violations(r, ctx, allow_rcs=(0,)):
        return
    d = next((x for x in lrecs if x.get("op") == "dump"), None)
    a = next((x for x in lrecs if x.get("op") == "arr"), None)
    if d is None or d.get("null") or a is None or a["rc"] != 0:
        ck.violation("rejected-valid-input", "kalign_run / kalign() failed", ctx)
        return
    log_recs = common.read_jsonl(log) if os.path.exists(log) else []
    runrec = [x for x in log_recs if x.get("rec") == "run"]
    if len(runrec) != 2:
        ck.note_inconclusive("exits: %d run records from the hook runtime" % len(runrec))
        return
    if any(x["c10_violations"] for x in runrec):
        wit = [x for x in log_recs if x.get("rec") == "c10_witness"]
        ck.violation("projection-differs", wit[0]["detail"] if wit else "snapshot differs from final projection", ctx)
        return
    rows = [x["seq"] for x in d["rows"]]
    errs = fmt.check_alignment(recs, [(x["name"], x["seq"]) for x in d["rows"]], "msa")
    if errs:
        ck.violation("output-invalid", errs[0], ctx)
        return

    def first_split(other):
        for i, (x, y) in enumerate(zip(rows, other)):
            if x != y:
                c = next((k for k in range(min(len(x), len(y))) if x[k] != y[k]), min(len(x), len(y)))
                return "row %d differs from column %d on (monitored msa %r, delivered %r)" % (i, c, x[max(0, c - 5):c + 15], y[max(0, c - 5):c + 15])
        return "row counts differ (%d / %d)" % (len(rows), len(other))

    ck.count("exit_comparisons_array")
    if a["rows"] != rows:
        ck.violation("array-exit-differs-from-monitored-alignment", "kalign() returns rows in which sequences that were aligned in the msa are no longer column-consistent: " + first_split(a["rows"]), ctx)
    res, crow = kal.cli_align(ck, paths, recs=recs, files=[f], word=word, gpo=gp[0] if gp[0] >= 0 else None, gpe=gp[1] if gp[1] >= 0 else None,
                              tgpe=gp[2] if gp[2] >= 0 else None, nthreads=nt, ctx=ctx, format=rng.choice([None, "msf", "clu"]))
    if crow is not None:
        ck.count("exit_comparisons_cli")
        if [s_ for _, s_ in crow] != rows:
            ck.violation("cli-exit-differs-from-monitored-alignment", "the CLI writes a different alignment than kalign_run leaves in the msa: " + first_split([s_ for _, s_ in crow]), ctx)
    longest_run = max((len(m_) for row in rows for m_ in re.findall(r"-+", row)), default=0)
    ck.cmax("longest_gap_run_in_exit_comparisons", longest_run)
    if longest_run > 256:
        ck.count("exit_comparisons_with_gap_runs_over_256")
    ck.evaluated(("exits", idx, len(recs), hash(tuple(recs)) & 0xffffff) if any("-" in x for x in rows) else None)
    ck.count("nodes_checked", sum(x["snap_nodes"] for x in runrec))


def run(ck, tier):
    paths = build("asan")
    sc = getattr(ck, "scale", 1.0)
    nsmall, nbig = (120, 16) if tier == "quick" else (1300, 200)
    nhuge = 3 if tier == "quick" else 24
    rel = build("rel")
    jobs = [(200000 + i, "huge") for i in range(int(nhuge * sc))] + [(i, False) for i in range(int(nsmall * sc))] + [(100000 + i, True) for i in range(int(nbig * sc))]
    nex = int((24 if tier == "quick" else 300) * sc)
    jobs += [(300000 + i, "exits") for i in range(nex)]
    common.pmap(lambda j: run_exits(ck, paths, j[0]) if j[1] == "exits" else run_case(ck, paths, j[0], j[1], rel), jobs, workers=10)
    ck.rule = ("families over balanced/caterpillar/star/random trees and pairs of equal-length families of 16..30 members with 3..99 (UPGMA) and 100..600 (k-means) sequences, all types, default and user penalties, "
               "threads 1/4/16 with injected delays; for every internal guide-tree node the hook runtime snapshots the members' gap vectors at completion and, "
               "after kalign_run, checks rank_U(final column) == column at completion for every residue of every member and |U| == group length. "
               "Exits: the rows returned by kalign() and written by the CLI are compared with the monitored msa (incl. fragments of long sequences, gap runs > 256). "
               "Non-trivial = a run whose output contains gaps and that checked >= 2 nodes.")
    ck.assumptions = ["snapshot taken in kv_merge_end inside do_align (after make_seq and the sip/nsip update), under the runtime mutex"]


def replay(ck, doc):
    paths = build("asan")
    rp = doc["replay"]
    if rp.get("exits"):
        run_exits(ck, paths, rp["idx"])
    else:
        run_case(ck, paths, rp["idx"], rp.get("big", False), build("rel"))
    with ck.lock:
        ck.nontrivial |= set(range(30))
