"""C05: no memory error, crash or hang on any input; failures are reported as failures."""
import glob
import os
import re
import shutil
import subprocess

from vf import common, fmt, gen, kal
from vf.build import build

MIN_NONTRIVIAL = 100
TESTDATA = os.path.join(common.REPO, "tests", "data")
KEYWORDS = [b"//", b"Name:", b"Len:", b"MSF:", b"Check:", b"CLUSTAL W", b"CLUSTAL O", b">", b"!!AA_MULTIPLE_ALIGNMENT 1.0", b"!!NA_MULTIPLE_ALIGNMENT",
            b"multiple sequence alignment", b"Weight:", b"..", b" ", b"\n", b"\n\n", b"\r\n", b"\t", b"-", b".", b"*", b"~", b"X", b"U", b"J", b"O", b"Z", b"B",
            b"\x00", b"\x80", b"\xff", b"\xc3\xa9", b"\x7f", b"\x01", b"Name: ", b" Name: x", b"Name: x Len: 5", b" Len: "]


# ------------------------------------------------------------------------------------- oracle


def input_letters(blobs):
    return "".join(chr(b) for blob in blobs for b in blob if (65 <= b <= 90) or (97 <= b <= 122))


def is_subsequence(s, t):
    it = iter(t)
    return all(c in it for c in s)


def structural_check(out_bytes, blobs, format="fasta"):
    """weak C01 for arbitrary bytes: >= 2 rows, equal lengths, letters and '-' only, no all-gap column,
    every row's residues occur in order among the input's letters"""
    try:
        rows = kal.parse_output(out_bytes, format)
    except fmt.FormatError as ex:
        return "output-unparsable", str(ex)
    except Exception as ex:  # malformed beyond the parser's expectations
        return "output-unparsable", repr(ex)
    if len(rows) < 2:
        return "fewer-than-2-rows", "exit 0 but the output holds %d rows" % len(rows)
    L = len(rows[0][1])
    letters = None
    used = bytearray(L)
    for k, (n, s) in enumerate(rows):
        if len(s) != L:
            return "unequal-row-lengths", "row %d has %d columns, row 0 has %d" % (k, len(s), L)
        for i, c in enumerate(s):
            if c == "-":
                continue
            if not (c.isascii() and c.isalpha()):
                return "foreign-character", "row %d contains %r" % (k, c)
            used[i] = 1
        if letters is None:
            letters = input_letters(blobs)
        if not is_subsequence(s.replace("-", ""), letters):
            return "residues-not-from-input", "row %d (%r...) is not a subsequence of the input's letters" % (k, s[:40])
    if L == 0:
        return "empty-rows", "exit 0 with empty rows"
    if not all(used):
        return "all-gap-column", "column %d consists of gaps only" % used.index(0)
    return None


def judge(ck, res, blobs, ctx, cls, format="fasta", known_recs=None, rerun_fasta=None):
    """common verdict for one CLI run"""
    ck.count("runs")
    ck.count("runs_%s" % cls)
    rc = res.proc.rc
    ck.count("exit_%s" % ("signal" if res.proc.signal else rc))
    if (res.proc.cpu_limited or res.proc.timed_out) and sum(len(b) for b in blobs) > 30000:
        # a CPU-limit hit is only a verdict ("does not terminate") for small inputs; large mutated inputs can legitimately take minutes
        ck.count("unjudged_cpu_limit_on_large_input")
        return
    if ck.proc_violations(res.proc, ctx):
        return
    if rc == 0:
        if res.out_bytes is None:
            ck.violation("exit0-without-output:%s" % cls, "exit status 0 but no output was written", ctx)
            return
        if known_recs is not None:
            try:
                rows = kal.parse_output(res.out_bytes, format)
                errs = fmt.check_alignment(known_recs, rows, "output")
            except fmt.FormatError as ex:
                errs = ["output-unparsable: %s" % ex]
            if errs:
                ck.violation("exit0-invalid-alignment:%s" % cls, errs[0], ctx)
                return
        else:
            bad = None
            if format in ("msf", "clu") and rerun_fasta is not None:
                # MSF/Clustal cannot carry empty names or names with blanks; for arbitrary bytes the names are whatever the reader made
                # of them. Judge the alignment through a FASTA-format run of the same input, and the block file only when the names fit.
                fa_bytes = rerun_fasta()
                if fa_bytes is None:
                    bad = ("format-dependent-exit-status", "the same input succeeds with -f %s but fails with FASTA output" % format)
                else:
                    bad = structural_check(fa_bytes, blobs, "fasta")
                    if not bad:
                        rows_fa = fmt.parse_fasta(fa_bytes)
                        fit = all(n and n == n.strip() and not any(c.isspace() for c in n) and len(n) <= 250 and not n.startswith(("//", ">")) for n, _ in rows_fa)
                        if fit:
                            bad = structural_check(res.out_bytes, blobs, format)
                            if not bad and kal.parse_output(res.out_bytes, format) != rows_fa:
                                bad = ("block-format-differs-from-fasta", "rows of the %s output differ from the FASTA output of the same input" % format)
                        else:
                            ck.count("unjudged_block_format_with_names_outside_the_formats")
            else:
                bad = structural_check(res.out_bytes, blobs, format)
            if bad:
                ck.violation("exit0-invalid-alignment:%s" % bad[0], "exit status 0 but %s" % bad[1], ctx)
                return
        ck.count("successes_with_valid_alignment")
    else:
        if not res.stderr.strip():
            ck.violation("failure-without-message:%s" % cls, "exit status %s with empty stderr" % rc, ctx)


# ------------------------------------------------------------------------------------- workloads


def seeds(ck):
    """valid input files used as mutation seeds: (label, bytes)"""
    out = []
    for fn in ("BB11001.tfa", "BB11001.msf", "small.fa", "tiny.fa", "clustal.good.1", "afa.good.1", "a2m.good.1"):
        p = os.path.join(TESTDATA, fn)
        if os.path.exists(p):
            out.append((fn, open(p, "rb").read()))
    rng = ck.rng.__class__(ck.seed)
    for kind in ("dna", "protein"):
        alpha = gen.DNA if kind == "dna" else gen.AA
        seqs = gen.family(rng, 5, 40, alpha, "random", 0.15, 0.05, 3)
        names = ["s%d" % i for i in range(5)]
        rows = gen.insert_gaps(rng, seqs, 0.3, "-")
        recs = list(zip(names, rows))
        out.append(("gen_%s.fa" % kind, fmt.write_fasta(list(zip(names, seqs))).encode()))
        out.append(("gen_%s.afa" % kind, fmt.write_fasta(recs).encode()))
        out.append(("gen_%s.aln" % kind, fmt.write_clustal(recs).encode()))
        out.append(("gen_%s.msf" % kind, fmt.write_msf(recs, protein=(kind == "protein")).encode()))
    return out


def mutate_bytes(rng, data):
    b = bytearray(data)
    nops = rng.choice([1, 1, 2, 3, 6])
    for _ in range(nops):
        op = rng.choice(["flip", "insert_kw", "delete", "truncate", "dup_line", "del_line", "swap_lines", "insert_bytes", "long_line", "replace_letter", "dup_block"])
        if not b:
            b = bytearray(rng.choice(KEYWORDS))
        if op == "flip":
            for _ in range(rng.choice([1, 3, 10])):
                b[rng.randrange(len(b))] = rng.randrange(256)
        elif op == "insert_kw":
            i = rng.randrange(len(b) + 1)
            b[i:i] = rng.choice(KEYWORDS)
        elif op == "delete":
            i = rng.randrange(len(b))
            del b[i:i + rng.choice([1, 5, 50])]
        elif op == "truncate":
            del b[rng.randrange(len(b)):]
        elif op in ("dup_line", "del_line", "swap_lines", "dup_block"):
            lines = bytes(b).split(b"\n")
            i = rng.randrange(len(lines))
            if op == "dup_line":
                lines[i:i] = [lines[i]] * rng.choice([1, 2, 600])
            elif op == "del_line":
                del lines[i]
            elif op == "swap_lines" and len(lines) > 1:
                j = rng.randrange(len(lines))
                lines[i], lines[j] = lines[j], lines[i]
            else:
                j = min(len(lines), i + rng.choice([3, 8, 20]))
                lines[j:j] = lines[i:j] * rng.choice([1, 3, 40])
            b = bytearray(b"\n".join(lines))
        elif op == "insert_bytes":
            i = rng.randrange(len(b) + 1)
            b[i:i] = bytes(rng.randrange(256) for _ in range(rng.choice([1, 4, 64])))
        elif op == "long_line":
            i = rng.randrange(len(b) + 1)
            b[i:i] = rng.choice([b"A", b"ACGT", b"x", b"-", b">"]) * rng.choice([600, 5000, 20000])
        elif op == "replace_letter":
            tgt = rng.choice(b"XJOUZBNxjou*")
            for _ in range(rng.choice([1, 5, 30])):
                b[rng.randrange(len(b))] = tgt
    return bytes(b)


def near_valid(rng):
    """grammar-generated near-valid inputs"""
    kind = rng.choice(["fasta", "msf", "clu"])
    n = rng.choice([0, 1, 2, 3, 5, 520])
    alpha = rng.choice([gen.DNA, gen.AA, "ACGTX", "ACGU", "N", "X", gen.AA + "BZXJOU", "acgt"])
    # many records only with short sequences: 520 x 512 residues costs minutes under the sanitizers without being a hang
    lens = [0, 1, 5, 60, 511, 512, 513] if n < 100 else [0, 1, 5, 60]
    seqs = [gen.rand_seq(rng, rng.choice(lens), alpha) for _ in range(n)]
    names = [rng.choice(["s%d" % i, "", "x" * 255, "x" * 256, "x" * 300, "a b c", "Name:", ">", "-", "s%d" % (i % 2)]) for i in range(n)]
    recs = list(zip(names, seqs))
    if kind == "fasta":
        parts = []
        for nm, s in recs:
            parts.append(rng.choice([">", ">", "> ", ">>"]) + nm + "\n")
            if rng.random() < 0.8:
                parts.append(s + "\n")
        if rng.random() < 0.2:
            parts.insert(0, rng.choice(["ACGT\n", "-\n", "*\n", "\n", ";comment\n"]))
        return "".join(parts).encode("latin-1")
    rows = recs
    if recs:
        w = max(len(s) for s in seqs)
        rows = [(nm if nm and " " not in nm else "r%d" % i, s.ljust(w, "-")) for i, (nm, s) in enumerate(recs)]
    if not rows:
        rows = [("a", "")]
    if kind == "clu":
        t = fmt.write_clustal(rows) if rows[0][1] else "CLUSTAL W multiple sequence alignment\n\n"
        if rng.random() < 0.3:
            t = t.replace("\n\n", "\n", 1)
        return t.encode("latin-1")
    t = fmt.write_msf(rows) if rows[0][1] else "!!AA_MULTIPLE_ALIGNMENT 1.0\n MSF: 0 Type: P Check: 0 ..\n//\n"
    v = rng.random()
    if v < 0.2:
        t = t.replace("//\n", "", 1)
    elif v < 0.4:
        # more block rows than Name: lines
        lines = t.split("\n")
        lines = [l for l in lines if "Name:" not in l or rng.random() < 0.5]
        t = "\n".join(lines)
    elif v < 0.5:
        t = t.replace("Len:", "Name:", 1)
    return t.encode("latin-1")


def rng_pos(k, n):
    return (k * 7 + 1) % (n + 1)


def corpus(ck):
    """fixed regression corpus: (label, [file bytes...], args, stdin bytes|None)"""
    C = []
    A = lambda label, files, args=(), sin=None: C.append((label, files, list(args), sin))
    fa = lambda recs: fmt.write_fasta(recs).encode("latin-1")
    dna = ["ACGTACGTTTGACCA", "ACGTTACGTTGACA", "ACGACGTTTGGACCA", "ACTTACGTTTGACC"]
    prot = ["MKVLDEFWHIKLMPQRS", "MKILDEWHIKLMPRS", "MKVLDEFWHKLMPQRSV", "MVLDEFWHIKLMPQS"]
    # D4: letters outside the alphabet
    A("unmapped_X_in_dna", [fa([("a", "ACGTXACGTTTGA"), ("b", "ACGTACGTXTGA"), ("c", "ACGTACGTTGA")])])
    A("unmapped_JOU_in_protein", [fa([("a", prot[0] + "JOU"), ("b", "J" + prot[1] + "O"), ("c", prot[2] + "U")])])
    A("unmapped_many_X_dna_100seqs", [fa([("s%d" % i, "ACGTX" * 8 + "A" * (i % 5)) for i in range(110)])])
    # D5: bytes >= 0x80 in sequence lines, all three readers
    A("highbit_fasta", [b">a\nACGT\xe9\xffACGT\n>b\nACG\x80TACGT\n>c\nACGTACG\n"])
    A("highbit_clustal", [b"CLUSTAL W multiple sequence alignment\n\na   ACGT\xe9ACGT\nb   ACGT\xffACGT\n\n"])
    A("highbit_msf", [fmt.write_msf([("a", "ACGTACGT"), ("b", "ACG-ACGT")], protein=False).encode().replace(b"ACG.ACGT", b"ACG\xf1ACGT")])
    # D6: punctuation / residues before the first header
    A("punct_before_header", [b"-\n>a\nACGT\n>b\nACGA\n"])
    A("residue_before_header", [b"ACGT\n>a\nACGT\n>b\nACGA\n"])
    A("star_before_header_gt_later", [b"***\n\n>a\nACGT\n>b\nACGA\n"])
    # D7 / D10: single record
    A("single_record", [fa([("a", dna[0])])])
    A("single_record_two_files", [fa([("a", dna[0])]), fa([("b", dna[1])])])
    A("single_record_then_empty", [fa([("a", dna[0])]), b""])
    # D8: zero-length sequences
    A("zero_length_seq", [fa([("a", dna[0]), ("e", ""), ("b", dna[1]), ("c", dna[2])])])
    A("only_zero_length", [b">a\n>b\n>c\n"])
    A("one_nonempty_rest_empty", [b">a\nACGT\n>b\n>c\n"])
    # D11: empty / undetectable parts
    A("empty_file_between", [fa([("a", dna[0]), ("b", dna[1])]), b"", fa([("c", dna[2])])])
    A("undetectable_between", [fa([("a", dna[0]), ("b", dna[1])]), b"hello world\n", fa([("c", dna[2])])])
    A("empty_file_only", [b""])
    A("blank_lines_only", [b"\n\n\n"])
    A("undetectable_only", [b"hello world\nfoo bar\n"])
    # D19: numseq == 0
    A("header_less_clustal", [b"CLUSTAL W multiple sequence alignment\n\n\n"])
    A("msf_header_only", [b"!!AA_MULTIPLE_ALIGNMENT 1.0\n\n x MSF: 10 Type: P Check: 0 ..\n\n//\n\n"])
    A("msf_no_names_with_blocks", [b"!!AA_MULTIPLE_ALIGNMENT 1.0\n x MSF: 4 Type: P Check: 0 ..\n//\n\na  ACGT\nb  ACGA\n\n"])
    A("fasta_marker_only", [b">\n"])
    # D20 / D21: read_msf
    A("msf_name_at_end_of_line", [b"!!AA_MULTIPLE_ALIGNMENT 1.0\n x MSF: 4 Type: P Check: 0 ..\n Len: 4 Name:\n//\n\na  ACGT\n"])
    A("msf_name_long_tail", [b"!!AA_MULTIPLE_ALIGNMENT 1.0\n x MSF: 4 Type: P Check: 0 ..\n" + b" " * 300 + b"Len: 4 Name: " + b"q" * 10 + b"\n//\n\nqqqqqqqqqq  ACGT\n"])
    A("msf_more_block_rows_than_names", [b"!!AA_MULTIPLE_ALIGNMENT 1.0\n x MSF: 4 Type: P Check: 0 ..\n Name: a Len: 4 Check: 0 Weight: 1.0\n//\n\n" + b"".join(b"r%d  MKVLDEFW\n" % i for i in range(600)) + b"\n"])
    A("msf_missing_separator", [b"!!AA_MULTIPLE_ALIGNMENT 1.0\n x MSF: 4 Type: P Check: 0 ..\n Name: a Len: 4 Check: 0 Weight: 1.0\n Name: b Len: 4 Check: 0 Weight: 1.0\n\na  MKVL\nb  MKIL\n"])
    A("clustal_600_rows", [b"CLUSTAL W multiple sequence alignment\n\n" + b"".join(b"r%d   MKVLDEFWHIK\n" % i for i in range(600)) + b"\n"])
    # buffer boundaries
    for L in (511, 512, 513, 1023, 1024, 1025):
        A("seq_len_%d" % L, [fa([("a", "ACGT" * (L // 4) + "A" * (L % 4)), ("b", "ACGA" * (L // 4) + "C" * (L % 4)), ("c", "ACGT" * 10)])])
    for n in (511, 512, 513, 1025):
        A("records_%d" % n, [fa([("s%d" % i, "MKVLDEFWHIK"[: 5 + i % 6] + "LMPQ") for i in range(n)])])
    # accumulating several files into one msa: capacity boundaries of merge_msa / resize_msa (512-record steps)
    mk = lambda a, b: fa([("s%d" % i, "MKVLDEFWHIK"[: 5 + i % 6] + "LMPQ") for i in range(a, b)])
    A("merge_3_plus_1100", [mk(0, 3), mk(3, 1103)])
    A("merge_511_plus_2", [mk(0, 511), mk(511, 513)])
    A("merge_512_plus_513", [mk(0, 512), mk(512, 1025)])
    A("merge_600_600_600", [mk(0, 600), mk(600, 1200), mk(1200, 1800)])
    A("merge_2_plus_510_plus_1", [mk(0, 2), mk(2, 512), mk(512, 513)])
    # k-means path with an outlier that ends up alone in a cluster; gap characters only after the 50th record
    rr = ck.rng.__class__(12345)
    fam = gen.family(rr, 130, 60, gen.AA, "random", 0.15, 0.03, 2)
    A("kmeans_130_related_plus_1_unrelated", [fa([("s%d" % i, x) for i, x in enumerate(fam)] + [("outlier", gen.rand_seq(rr, 248, "WCHMYFP"))])])
    A("kmeans_130_related_plus_long_outlier", [fa([("outlier", gen.rand_seq(rr, 400, "GPNDST"))] + [("s%d" % i, x) for i, x in enumerate(fam)])])
    lg = [("s%d" % i, x) for i, x in enumerate(gen.family(rr, 64, 40, gen.DNA, "random", 0.15, 0.05, 2))]
    lg[56] = (lg[56][0], lg[56][1][:10] + "--" + lg[56][1][10:25] + "." + lg[56][1][25:])
    A("gap_characters_only_after_record_50", [fa(lg)])
    A("input_lines_gt_1024", [(">a\n" + "ACGT\n" * 1100 + ">b\n" + "ACGA\n" * 500 + ">c\nACGT\n").encode()])
    A("input_lines_gt_1536", [(">a\n" + "ACGT\n" * 1600 + ">b\n" + "ACGA\n" * 100).encode()])
    A("output_lines_gt_1024_clu", [fa([("s%d" % i, "MKVLDEFWHIKLMPQRS" * 8) for i in range(400)])], ["-f", "clu"])
    A("output_lines_gt_2048_msf", [fa([("s%d" % i, "MKVLDEFWHIKLMPQRS" * 16) for i in range(420)])], ["-f", "msf"])
    for nl in (255, 256, 300, 5000):
        A("name_len_%d" % nl, [fa([("n" * nl, dna[0]), ("m" * nl, dna[1]), ("k", dna[2])])], ["-f", "msf"] if nl <= 300 else ["-f", "clu"])
    A("name_len_300_clustal_input", [fmt.write_clustal([("n" * 300, "ACGT-ACGT"), ("m" * 300, "ACGTTACGT")]).encode()])
    A("one_megabyte_line", [b">a\n" + b"ACGT" * 262144 + b"\n>b\nACGTACGT\n"])
    A("only_headers", [b">a\n>b\n>c\n>d\n"])
    A("only_residues", [b"ACGTACGT\nACGGT\n"])
    A("header_no_newline_at_eof", [b">a\nACGT\n>b"])
    A("nul_bytes", [b">a\nAC\x00GT\n>b\nACGT\x00\n>c\nACGA\n"])
    A("tabs_and_controls", [b">a\nAC\tGT\x01\n>b\nAC\x0bGT\n>c\nACGA\n"])
    A("crlf", [b">a\r\nACGTAC\r\n>b\r\nACGAC\r\n>c\r\nACGT\r\n"])
    A("digits_and_blanks", [b">a\n1 ACGT ACGT 8\n>b\n1 ACGA ACGT 8\n"])
    A("lowercase", [fa([("a", dna[0].lower()), ("b", dna[1].lower()), ("c", dna[2])])])
    A("mixed_alphabets_two_files", [fa([("a", dna[0]), ("b", dna[1])]), fa([("p", prot[0]), ("q", prot[1])])])
    A("stdin_only", [], [], fa([("a", dna[0]), ("b", dna[1]), ("c", dna[2])]))
    A("stdin_binary_garbage", [], [], bytes(range(256)) * 4)
    A("equal_length_sequences", [fa([("s%d" % i, "ACGT"[i % 4] + "ACGTACGTAC") for i in range(8)])])
    A("identical_100", [fa([("s%d" % i, "MKVLDEFWHIKLMPQRS") for i in range(100)])])
    A("two_single_residue", [b">a\nA\n>b\nC\n"])
    # records without residues (they are dropped with a warning) under long names, default verbosity
    for nl, ne in ((60, 4), (120, 3), (170, 4), (255, 2), (300, 2), (2000, 3)):
        recs_ = [("k%d" % i, dna[i % 4]) for i in range(3)]
        for e_ in range(ne):
            recs_.insert(rng_pos(e_, len(recs_)), ("empty%d_" % e_ + "n" * nl, ""))
        A("empty_records_names_%d_x%d_verbose" % (nl, ne), [fa(recs_)], ["--kv-verbose"])
        A("empty_records_names_%d_x%d_quiet" % (nl, ne), [fa(recs_)])
    # record counts around the growth steps of the sequence table (512, 1024), in each input format
    for nrec in (512, 513, 1025):
        fam_ = gen.family(rr, nrec, 14, gen.AA, "random", 0.2, 0.0, 1)
        w_ = max(len(x) for x in fam_)
        rows_ = [("m%d" % i, x[:w_].ljust(w_, "-")) for i, x in enumerate(fam_)]
        A("msf_input_%d_records" % nrec, [fmt.write_msf(rows_, protein=True).encode()])
        A("clustal_input_%d_records" % nrec, [fmt.write_clustal(rows_).encode()])
    A("long_vs_short_500", [fa([("a", "ACGT" * 150), ("b", "ACGTAC" * 90), ("c", "AC")])], ["-n", "4"])
    return C


OPTION_VALUES = ["", "0", "-1", "-3", "1", "3", "64", "1e30", "nan", "inf", "-inf", "abc", "0x10", "1.5", "99999999999999999999", " ", "-", "--", "5 5"]


def option_cases(ck, rng, n):
    out = []
    for i in range(n):
        args = []
        for _ in range(rng.choice([1, 1, 2, 3])):
            opt = rng.choice(["--gpo", "--gpe", "--tgpe", "-n", "--nthreads", "--type", "--format", "-f", "--set", "-o", "--bogus", "-x", "--showw", "-h", "--version", "-q", "-i"])
            if opt in ("--showw", "-h", "--version", "-q", "--bogus", "-x"):
                args.append(opt)
            elif opt == "--type":
                args += [opt, rng.choice(["dna", "rna", "protein", "divergent", "internal", "DNA", "prot", "", "x", "rnadna", "internalprotein", "pro tein"] + OPTION_VALUES[:6])]
            elif opt in ("--format", "-f"):
                args += [opt, rng.choice(["fasta", "fa", "msf", "clu", "clustal", "afa", "", "x", "FASTA", "msfclu", "aln"] + OPTION_VALUES[:4])]
            elif opt in ("-n", "--nthreads"):
                args += [opt, rng.choice(["0", "-3", "1", "2", "17", "256", "1024", "abc", "", "1e3", "4.7", "99999999999"])]
            elif opt == "-o":
                args += [opt, rng.choice(["@OUT@", "@MISSINGDIR@/x.fa", "@DIR@", "/dev/full", "/dev/null", ""])]
            elif opt == "-i":
                args += [opt, rng.choice(["@IN@", "@MISSING@", "@DIR@", ""])]
            else:
                args += [opt, rng.choice(OPTION_VALUES)]
        out.append(args)
    return out


# ------------------------------------------------------------------------------------- drivers


def run_files(ck, paths, label, blobs, args, sin, cls, idx, known_recs=None, env=None, nthreads=None):
    d = ck.tmpdir()
    files = []
    for k, b in enumerate(blobs):
        p = os.path.join(d, "in%d" % k)
        common.write_bytes(p, b)
        files.append(p)
    out = os.path.join(d, "out")
    format = "fasta"
    a = list(args)
    # "--kv-verbose" is a marker of this harness, not a kalign option: run without -q, so that the warning / log paths see the hostile names too
    quiet = "--kv-verbose" not in a
    a = [x for x in a if x != "--kv-verbose"]
    if not quiet:
        ck.count("runs_with_default_verbosity")
    if "-f" in a:
        format = a[a.index("-f") + 1]
    if "-n" not in a and nthreads is None:
        nthreads = 2
    res = common.kalign_cli(paths, files, args=a, nthreads=nthreads, out=out, stdin_data=sin, env=env, timeout=300, cpu=120, quiet=quiet)
    ctx = {"class": cls, "label": label, "idx": idx, "args": a, "files": [b[:4000] for b in blobs], "stdin": sin[:2000] if sin else None, "variant": paths["variant"]}
    def rerun_fasta():
        a2 = [x for k, x in enumerate(a) if not (x == "-f" or (k > 0 and a[k - 1] == "-f"))]
        out2 = os.path.join(d, "out2")
        r2 = common.kalign_cli(paths, files, args=a2, nthreads=nthreads, out=out2, stdin_data=sin, env=env, timeout=300, cpu=120, quiet=quiet)
        if r2.rc != 0 or r2.out_bytes is None:
            return None
        return r2.out_bytes

    judge(ck, res, list(blobs) + ([sin] if sin else []), ctx, cls, format=format, known_recs=known_recs, rerun_fasta=rerun_fasta)
    shutil.rmtree(d, ignore_errors=True)
    return res


def w_corpus(ck, paths):
    C = corpus(ck)
    common.pmap(lambda t: run_files(ck, paths, t[1][0], t[1][1], t[1][2], t[1][3], "corpus", t[0]), list(enumerate(C)), workers=12)
    for label, blobs, args, sin in C:
        ck.evaluated(("corpus", label))
    ck.cov["corpus_entries"] = [c[0] for c in C]


def w_mutation(ck, paths, n):
    S = seeds(ck)

    def one(i):
        rng = ck.rng.__class__(ck.seed * 275604541 + i)
        if rng.random() < 0.25:
            data = near_valid(rng)
            label = "near_valid"
        else:
            name, base = rng.choice(S)
            data = mutate_bytes(rng, base)
            label = "mut:" + name
        blobs = [data]
        if rng.random() < 0.15:
            name2, base2 = rng.choice(S)
            blobs.append(mutate_bytes(rng, base2) if rng.random() < 0.5 else base2)
        args = []
        if rng.random() < 0.3:
            args += ["-f", rng.choice(["msf", "clu", "fasta"])]
        if rng.random() < 0.2:
            args += ["--type", rng.choice(["dna", "protein", "rna", "internal", "divergent"])]
        if rng.random() < 0.2:
            args += ["--kv-verbose"]
        run_files(ck, paths, label, blobs, args, None, "mutation", i, nthreads=rng.choice([1, 2, 5]))
        ck.evaluated(("mut", i))
    common.pmap(one, range(n), workers=14)


def w_options(ck, paths, n):
    rng = ck.rng.__class__(ck.seed * 295075153)
    base = fmt.write_fasta([("a", "ACGTACGTTTGACCA"), ("b", "ACGTTACGTTGACA"), ("c", "ACGACGTTTGGACCA")]).encode()
    cases = option_cases(ck, rng, n)

    def one(t):
        i, args = t
        d = ck.tmpdir()
        inp = os.path.join(d, "in.fa")
        common.write_bytes(inp, base)
        os.makedirs(os.path.join(d, "adir"))
        rep = {"@OUT@": os.path.join(d, "o.fa"), "@MISSINGDIR@": os.path.join(d, "nodir"), "@DIR@": os.path.join(d, "adir"), "@IN@": inp, "@MISSING@": os.path.join(d, "nofile")}
        a = [functools_reduce(x, rep) for x in args]
        has_out = "-o" in a
        cmd = [paths["kalign"]] + a + ([] if "-i" in a else [inp])
        r = common.run_proc(cmd, timeout=300, cpu=120, cwd=d)
        ctx = {"class": "options", "args": a, "idx": i}
        ck.count("runs")
        ck.count("runs_options")
        ck.evaluated(("opt", tuple(args)))
        ck.count("exit_%s" % ("signal" if r.signal else r.rc))
        if not ck.proc_violations(r, ctx):
            err = r.err.decode(errors="replace")
            outtxt = r.out.decode(errors="replace")
            if r.rc != 0 and not err.strip() and not outtxt.strip():
                ck.violation("failure-without-message:options", "exit %s with no message at all for %s" % (r.rc, a), ctx)
            if r.rc == 0 and has_out:
                o = a[len(a) - 1 - a[::-1].index("-o") + 1]  # the last -o wins
                if o == "/dev/full" or o.endswith("nodir/x.fa") or o.endswith("adir"):
                    infoonly = any(x in a for x in ("-h", "--version", "--showw"))
                    if not infoonly:
                        ck.violation("exit0-output-not-written:%s" % ("dev-full" if o == "/dev/full" else "unwritable-path"),
                                     "exit status 0 although the alignment could not be written to %s" % o, ctx)
        shutil.rmtree(d, ignore_errors=True)
    common.pmap(one, list(enumerate(cases)), workers=14)


def functools_reduce(x, rep):
    for k, v in rep.items():
        x = x.replace(k, v)
    return x


def w_faults(ck, paths):
    base = fmt.write_fasta([("a", "ACGTACGTTTGACCA"), ("b", "ACGTTACGTTGACA"), ("c", "ACGACGTTTGGACCA")]).encode()
    d = ck.tmpdir()
    inp = os.path.join(d, "in.fa")
    common.write_bytes(inp, base)
    os.makedirs(os.path.join(d, "adir"))
    inp2 = os.path.join(d, "in2.fa")
    common.write_bytes(inp2, fmt.write_fasta([("d", "ACGTACGTTTGACCAT"), ("e", "ACGTTACGTTGAC")]).encode())
    cases = [
        ("missing_input", [paths["kalign"], "-q", os.path.join(d, "nofile.fa")], False),
        ("directory_as_input", [paths["kalign"], "-q", os.path.join(d, "adir")], False),
        ("output_missing_dir", [paths["kalign"], "-q", inp, "-o", os.path.join(d, "nodir", "o.fa")], False),
        ("output_is_directory", [paths["kalign"], "-q", inp, "-o", os.path.join(d, "adir")], False),
        ("output_dev_full_fasta", [paths["kalign"], "-q", inp, "-o", "/dev/full"], False),
        ("output_dev_full_msf", [paths["kalign"], "-q", inp, "-f", "msf", "-o", "/dev/full"], False),
        ("output_dev_full_clu", [paths["kalign"], "-q", inp, "-f", "clu", "-o", "/dev/full"], False),
        ("good", [paths["kalign"], "-q", inp, "-o", os.path.join(d, "ok.fa")], True),
        # a fault in the middle of a sequence of inputs: the files before it were read successfully
        ("second_input_missing", [paths["kalign"], "-q", inp, os.path.join(d, "nofile.fa"), "-o", os.path.join(d, "m1.fa")], False),
        # a directory / a read error yields no sequences from that input: success with a valid alignment of what was read is allowed
        ("second_input_is_directory", [paths["kalign"], "-q", inp, os.path.join(d, "adir"), "-o", os.path.join(d, "m2.fa")], None),
        ("third_input_missing_after_two_good", [paths["kalign"], "-q", inp, inp, os.path.join(d, "nofile.fa"), "-o", os.path.join(d, "m3.fa")], False),
        ("good_two_inputs", [paths["kalign"], "-q", inp, inp2, "-o", os.path.join(d, "ok2.fa")], True),
    ]
    stlogs = {}
    if shutil.which("strace"):
        for lab, sysc, err, target in (("openat_EACCES_on_output", "openat", "EACCES", os.path.join(d, "x.fa")), ("write_ENOSPC_on_output", "write", "ENOSPC", os.path.join(d, "y.fa")),
                                       ("openat_EACCES_on_input", "openat", "EACCES", inp), ("read_EIO_on_input", "read", "EIO", inp),
                                       ("openat_EACCES_on_second_input", "openat", "EACCES", inp2), ("read_EIO_on_second_input", "read", "EIO", inp2)):
            lg = os.path.join(d, lab + ".strace")
            stlogs[lab] = lg
            outp = target if target not in (inp, inp2) else os.path.join(d, lab + ".fa")
            cases.append((lab, ["strace", "-f", "-o", lg, "-e", "trace=" + sysc, "-e", "inject=%s:error=%s" % (sysc, err), "-P", target,
                                paths["kalign"], "-q", inp, inp2, "-o", outp], None if sysc == "read" else False))
    for label, cmd, expect_ok in cases:
        r = common.run_proc(cmd, timeout=300, cpu=120, env={"ASAN_OPTIONS": common.BASE_ENV["ASAN_OPTIONS"] + ":detect_leaks=0"} if cmd[0] == "strace" else None)
        ctx = {"class": "faults", "label": label, "cmd": cmd}
        ck.count("runs")
        ck.count("runs_faults")
        ck.evaluated(("fault", label))
        if ck.proc_violations(r, ctx, allow_rcs=(0, 1)):
            continue
        err = r.err.decode(errors="replace")
        if expect_ok is True and r.rc != 0:
            ck.violation("fault-control-failed", "control run failed: %s" % err[-200:], ctx)
        if label in stlogs:
            inj = open(stlogs[label], errors="replace").read().count("(INJECTED)") if os.path.exists(stlogs[label]) else 0
            ck.count("injected_syscall_faults_fired", inj)
            if inj == 0:
                ck.note_inconclusive("strace injection %s did not fire" % label)
                continue
        if expect_ok is None and r.rc == 0:
            o = cmd[len(cmd) - 1 - cmd[::-1].index("-o") + 1]
            data = open(o, "rb").read() if os.path.exists(o) else None
            bad = structural_check(data, [base, open(inp2, "rb").read()], "fasta") if data is not None else ("no-output", "exit 0 without an output file")
            if bad:
                ck.violation("exit0-invalid-alignment:%s" % bad[0], "%s: exit status 0 but %s" % (label, bad[1]), ctx)
        elif expect_ok is None and r.rc != 0 and not err.strip():
            ck.violation("failure-without-message:faults", "%s: exit %s without a message" % (label, r.rc), ctx)
        if expect_ok is False:
            if r.rc == 0:
                ck.violation("exit0-output-not-written:%s" % ("dev-full" if "dev_full" in label or "ENOSPC" in label else label), "%s: exit status 0 although the run cannot have produced its output" % label, ctx)
            elif not err.strip():
                ck.violation("failure-without-message:faults", "%s: exit %s without a message" % (label, r.rc), ctx)
    shutil.rmtree(d, ignore_errors=True)


def w_perturb(ck, rel, n):
    """outputs must not depend on the fill pattern of fresh / freed heap memory (observable use of uninitialised memory)"""
    S = seeds(ck)

    def one(i):
        rng = ck.rng.__class__(ck.seed * 314606869 + i)
        if i < 12:
            label, blobs, args, sin = corpus(ck)[i * 3 % 40]
            if sin is not None or not blobs:
                return
        else:
            name, base = rng.choice(S)
            blobs = [mutate_bytes(rng, base) if rng.random() < 0.7 else base]
            label, args = "mut:" + name, []
            if rng.random() < 0.3:
                blobs = [fmt.write_fasta([("s%d" % k, s + rng.choice(["", "X", "J", "U", "Z"])) for k, s in enumerate(gen.family(rng, rng.randint(2, 12), rng.randint(5, 80), rng.choice([gen.DNA, gen.AA])))]).encode()]
                label = "letters"
        outs = []
        for pert in ("0", "85", "170"):
            d = ck.tmpdir()
            files = []
            for k, b in enumerate(blobs):
                p = os.path.join(d, "in%d" % k)
                common.write_bytes(p, b)
                files.append(p)
            out = os.path.join(d, "out")
            res = common.kalign_cli(rel, files, args=[a for a in args if a != "-n"], nthreads=2, out=out, env={"MALLOC_PERTURB_": pert}, timeout=300, cpu=120)
            outs.append((res.rc if not res.proc.signal else "signal%d" % res.proc.signal, res.out_bytes))
            ctx = {"class": "perturb", "label": label, "idx": i, "files": [b[:3000] for b in blobs], "MALLOC_PERTURB_": pert, "variant": "rel"}
            ck.proc_violations(res.proc, ctx)
            shutil.rmtree(d, ignore_errors=True)
        ck.count("perturbation_triples_compared")
        ck.evaluated(("perturb", i))
        if len(set(outs)) != 1:
            ck.violation("result-depends-on-heap-fill", "exit status / output differ between MALLOC_PERTURB_=0/85/170: %s" % [(o[0], len(o[1]) if o[1] else None) for o in outs],
                         {"class": "perturb", "label": label, "idx": i, "files": [b[:3000] for b in blobs]})
    common.pmap(one, range(n), workers=12)


def w_codes(ck, paths, n):
    """every residue letter must carry one defined internal code (< 23), the same for both cases"""
    def one(i):
        rng = ck.rng.__class__(ck.seed * 334214459 + i)
        kind = rng.choice(["dna", "protein"])
        base = gen.DNA if kind == "dna" else gen.AA
        extra = rng.choice(["", "X", "N", "XJOUBZ", "RYSWKMBDHV", "xjou", "EFIJLOPQZ"])
        seqs = ["".join(rng.choice(extra) if extra and rng.random() < 0.15 else rng.choice(base) for _ in range(rng.randint(5, 80))) for _ in range(rng.randint(2, 10))]
        if rng.random() < 0.3:
            seqs = [gen.random_case(rng, s, 0.5) for s in seqs]
        f = ck.tmp(".fa")
        common.write_bytes(f, fmt.write_fasta([("s%d" % k, s) for k, s in enumerate(seqs)]))
        r, lrecs = common.kvdrv(paths, ["read 0 %s" % f, "run 0 2 5 -1 -1 -1", "dump 0 codes", "free 0"], scratch=ck.scratch)
        ctx = {"class": "codes", "idx": i, "seqs": seqs}
        ck.count("runs")
        ck.count("runs_codes")
        ck.evaluated(("codes", i))
        if ck.proc_violations(r, ctx, allow_rcs=(0,)):
            return
        d = next((x for x in lrecs if x.get("op") == "dump"), None)
        rn = next((x for x in lrecs if x.get("op") == "run"), None)
        if not d or d.get("null") or not rn or rn["rc"] != 0:
            return
        m = {}
        for row in d["rows"]:
            res = row["seq"].replace("-", "")
            for c, code in zip(res, row["s"]):
                m.setdefault(c.upper(), set()).add(code)
        for c, codes in m.items():
            if len(codes) != 1 or max(codes) >= 23:
                ck.violation("letter-without-defined-class", "letter %r carries internal codes %s after kalign_run" % (c, sorted(codes)), ctx)
        ck.count("letters_checked", len(m))
    common.pmap(one, range(n), workers=12)


def w_array(ck, paths, n):
    """hostile strings through the array API kalign(): any bytes except NUL / newline (driver limitation), no empty strings
    (kalign() gives the caller no way to learn a reduced row count)"""
    def one(i):
        rng = ck.rng.__class__(ck.seed * 373587883 + i)
        k = rng.randint(2, 8)
        mode = rng.choice(["letters", "highbit", "punct", "digits", "mixed", "one_char", "long"])
        seqs = []
        for _ in range(k):
            L = rng.choice([1, 2, 5, 30, 200]) if mode != "long" else rng.choice([600, 1500])
            if mode == "letters":
                b = bytes(rng.choice(b"ACGTUNXJOZBacgtxjo") for _ in range(L))
            elif mode == "highbit":
                b = bytes(rng.choice(b"ACGT") if rng.random() < 0.8 else rng.randrange(128, 256) for _ in range(L))
            elif mode == "punct":
                b = bytes(rng.choice(b"ACGT-.*~_ ") for _ in range(L))
            elif mode == "digits":
                b = bytes(rng.choice(b"ACGT0123456789") for _ in range(L))
            elif mode == "one_char":
                b = bytes([rng.choice(b"AXN-\x7f\xff\x01")]) * L
            else:
                b = bytes(rng.choice([x for x in range(1, 256) if x != 10]) for _ in range(L))
            seqs.append(b)
        sf = ck.tmp(".seqs")
        common.write_bytes(sf, b"".join(x + b"\n" for x in seqs))
        ty = rng.choice([0, 1, 2, 3, 4, 5])
        r, lrecs = common.kvdrv(paths, ["arr %s %d %d -1 -1 -1" % (sf, rng.choice([1, 3]), ty)], scratch=ck.scratch)
        ctx = {"class": "array_api", "idx": i, "mode": mode, "type": ty, "seqs": [x[:200] for x in seqs]}
        ck.count("runs")
        ck.count("runs_array_api")
        ck.evaluated(("array", i))
        if ck.proc_violations(r, ctx, allow_rcs=(0,)):
            return
        a = next((x for x in lrecs if x.get("op") == "arr"), None)
        if a is None:
            ck.note_inconclusive("array api: no record")
            return
        if a["rc"] == 0:
            rows = a["rows"]
            ins = [x.decode("latin-1") for x in seqs]
            # kvdrv prints rows as JSON strings of the returned bytes; compare with the input strings (gap = '-' added by kalign only
            # when the input itself has no '-')
            if len(rows) != len(ins) or len(set(len(x) for x in rows)) != 1:
                ck.violation("array-api:invalid-result", "kalign() returned %d rows of lengths %s for %d inputs" % (len(rows), sorted(set(len(x) for x in rows))[:4], len(ins)), ctx)
            elif not any("-" in x for x in ins):
                for x, y in zip(ins, rows):
                    if y.replace("-", "") != x:
                        ck.violation("array-api:row-differs-from-input", "row %r does not de-gap to input %r" % (y[:60], x[:60]), ctx)
                        break
    common.pmap(one, range(n), workers=12)


def w_memcheck(ck, rel, n):
    if not shutil.which("valgrind"):
        ck.note_inconclusive("valgrind missing")
        return
    C = corpus(ck)

    def one(i):
        rng = ck.rng.__class__(ck.seed * 353868019 + i)
        d = ck.tmpdir()
        if i % 4 == 3:
            # array API through the driver
            kind = rng.choice(["dna", "protein"])
            alpha = gen.DNA if kind == "dna" else gen.AA
            L = rng.choice([12, 30, 520])
            seqs = gen.family(rng, rng.randint(2, 6), L, alpha, "random", 0.1, 0.02, 2)
            if rng.random() < 0.5:
                seqs = [s[:L].ljust(L, alpha[0]) for s in seqs]
            sf = os.path.join(d, "seqs")
            common.write_bytes(sf, "".join(s + "\n" for s in seqs))
            sc = os.path.join(d, "s.kv")
            common.write_bytes(sc, "arr %s 2 5 -1 -1 -1\n" % sf)
            cmd = [rel["kvdrv"], sc]
            label = "array_api_L%d" % L
            blobs = []
        else:
            pool = [c for c in C if c[3] is None and c[1] and sum(len(b) for b in c[1]) < 20000]
            label, blobs, args, sin = pool[(i * 7) % len(pool)] if i < 3 * len(pool) // 2 else rng.choice(pool)
            if i % 4 == 2:
                L = rng.choice([505, 530])
                seqs = gen.family(rng, 3, L, gen.DNA, "random", 0.05, 0.005, 3)
                blobs = [fmt.write_fasta([("s%d" % k, s) for k, s in enumerate(seqs)]).encode()]
                label, args = "three_seqs_len_%d" % L, []
            files = []
            for k, b in enumerate(blobs):
                p = os.path.join(d, "in%d" % k)
                common.write_bytes(p, b)
                files.append(p)
            cmd = [rel["kalign"], "-q", "-n", "2"] + [a for a in args] + ["-o", os.path.join(d, "out")] + files
        vg = ["valgrind", "-q", "--error-exitcode=77", "--track-origins=yes", "--leak-check=no", "--num-callers=20"] + cmd
        r = common.run_proc(vg, timeout=1800, cpu=900)
        err = r.err.decode(errors="replace")
        ctx = {"class": "memcheck", "label": label, "idx": i, "cmd": cmd, "files": [b[:3000] for b in blobs]}
        ck.count("runs")
        ck.count("runs_memcheck")
        ck.evaluated(("memcheck", i, label))
        blocks = re.split(r"\n(?===\d+== \S)", err)
        seen = set()
        for m in re.finditer(r"==\d+== (Conditional jump or move depends on uninitialised value\(s\)|Use of uninitialised value of size \d+|Invalid (?:read|write) of size \d+|Syscall param \S+ (?:points to|contains) uninitialised byte\(s\)|Invalid free\(\)[^\n]*|Mismatched free\(\)[^\n]*|Source and destination overlap[^\n]*)\n((?:==\d+==\s+(?:at|by) [^\n]*\n)+)", err):
            kind = re.sub(r"\d+", "N", m.group(1)).split("(")[0].strip().replace(" ", "-")
            fn = None
            for fl in m.group(2).split("\n"):
                fm = re.search(r"(?:at|by) 0x[0-9A-F]+: (\S+) \(([^)]*)\)", fl)
                if fm and re.search(r"\.c:\d+", fm.group(2)) and not fm.group(2).startswith(("vg_", "kvdrv.c")):
                    src = fm.group(2)
                    if any(src.startswith(x) for x in ("aln_", "msa_", "bpm", "bisecting", "sequence_distance", "tl", "run_kalign", "parameters", "alphabet", "task", "weave", "pick_anchor", "euclidean", "esl_")):
                        fn = fm.group(1)
                        break
            key = "memcheck:%s:%s" % (kind, fn or "?")
            if key not in seen:
                seen.add(key)
                ck.violation(key, m.group(0)[:1500], ctx)
        if r.timed_out or r.cpu_limited:
            ck.note_inconclusive("memcheck run timed out (%s)" % label)
        elif r.signal is not None:
            ck.violation("memcheck:signal:%d" % r.signal, err[-600:], ctx)
        shutil.rmtree(d, ignore_errors=True)
    common.pmap(one, range(n), workers=14)


def w_fuzzer(ck, runs, jobs=8):
    """(runs = seconds per job) libFuzzer target over kalign_read_input -> kalign_run -> kalign_write_msa; artifacts re-run through the ASan CLI for triage"""
    fz = build("fuzz")
    asan = build("asan")
    work = ck.tmpdir()
    corp = os.path.join(work, "corpus")
    art = os.path.join(work, "artifacts")
    os.makedirs(corp)
    os.makedirs(art)
    for i, (label, blobs, args, sin) in enumerate(corpus(ck)):
        for k, b in enumerate(blobs):
            if len(b) < 20000:
                common.write_bytes(os.path.join(corp, "c%03d_%d" % (i, k)), b)
    for name, b in seeds(ck):
        common.write_bytes(os.path.join(corp, "seed_" + name), b)
    # coverage-guided exploration is bounded by time per job (its speed depends on what it finds: 1..50 executions/s under ASan with two
    # OpenMP threads); the verdict does not depend on the bound, only the amount explored, which is reported in the evidence
    cmd = [fz["fuzzer"], corp, "-max_total_time=%d" % runs, "-max_len=2048", "-timeout=25", "-rss_limit_mb=3000", "-artifact_prefix=%s/" % art,
           "-jobs=%d" % jobs, "-workers=%d" % jobs, "-print_final_stats=1", "-reload=0"]
    env = {"ASAN_OPTIONS": "detect_leaks=0:allocator_may_return_null=1:quarantine_size_mb=8:exitcode=%d" % common.ASAN_EXIT, "KFUZZ_TMP": work}
    r = common.run_proc(cmd, env=env, timeout=runs * 6 + 1200, cpu=runs * jobs * 4 + 3600, cwd=work)
    cov = 0
    execs = 0
    for fn in glob.glob(os.path.join(work, "fuzz-*.log")):
        t = open(fn, errors="replace").read()
        for m in re.finditer(r"cov: (\d+)", t):
            cov = max(cov, int(m.group(1)))
        m = re.search(r"stat::number_of_executed_units:\s*(\d+)", t)
        if m:
            execs += int(m.group(1))
    ck.cov["libfuzzer_edges_covered"] = cov
    ck.cov["libfuzzer_executions"] = execs
    ck.evaluated(("fuzzer", runs), n=max(1, execs))
    ck.cov["libfuzzer_seconds_per_job"] = runs
    ck.cov["libfuzzer_jobs"] = jobs
    arts = sorted(os.listdir(art))
    ck.cov["libfuzzer_artifacts"] = len(arts)
    for a in arts[:200]:
        data = open(os.path.join(art, a), "rb").read()
        res = run_files(ck, asan, "fuzz-artifact:" + a.split("-")[0], [data], [], None, "fuzz_artifact", 0)
        if a.startswith(("timeout", "oom")):
            # re-check through the CLI with its own limits; only a reproducible hang is a violation (handled by judge)
            pass


def run(ck, tier):
    asan = build("asan")
    rel = build("rel")
    sc = getattr(ck, "scale", 1.0)
    if tier == "quick":
        nmut, nopt, npert, ncodes, nmem = 1000, 250, 40, 60, 28
    else:
        nmut, nopt, npert, ncodes, nmem = 15000, 3000, 400, 1000, 300
    w_corpus(ck, asan)
    w_faults(ck, asan)
    w_options(ck, asan, int(nopt * sc))
    w_mutation(ck, asan, int(nmut * sc))
    w_codes(ck, asan, int(ncodes * sc))
    w_array(ck, asan, int((120 if tier == "quick" else 3000) * sc))
    w_perturb(ck, rel, int(npert * sc))
    w_memcheck(ck, rel, int(nmem * sc))
    if tier == "thorough":
        w_fuzzer(ck, int(600 * sc), jobs=14)
    ck.rule = ("one process per input through the real CLI built with ASan+UBSan(+LSan): fixed regression corpus (witnesses of repaired defects, buffer boundaries 511/512/513/1023/"
               "1024/1025 residues and records, > 1024/1536 input and > 1024/2048 output lines, names of 255..5000 characters, 1 MB line, empty / header-only / residue-only files, "
               "header-less and over-full MSF/Clustal blocks), structure-aware mutations of valid FASTA/MSF/Clustal files and grammar-generated near-valid files, option fuzzing, "
               "path and I/O faults (missing/unwritable paths, /dev/full, strace-injected EACCES/ENOSPC); plus internal-code checks per letter, MALLOC_PERTURB_ differential on the "
               "-O2 build, valgrind memcheck on small inputs and the array API, and (thorough) a libFuzzer target. Oracle: no sanitizer/memcheck report, no signal, no hang, "
               "exit 0 only with a valid alignment of the input's letters, non-zero exit only with a message. Distinct = distinct inputs / option vectors / fault cases.")
    ck.assumptions = ["allocation-failure paths are not driven", "a clean sanitizer run is not memory safety: only executed paths and red-zone-visible errors are seen",
                      "thread counts capped at 1024 under the sanitizers (ASan + libgomp stack budget)"]
    ck.sample({"corpus_example": "msf_more_block_rows_than_names: one Name: line, 600 block rows"})
    ck.sample({"mutation_example": "BB11001.msf with 'Name:' inserted at a random offset and 3 bytes flipped"})


def replay(ck, doc):
    rp = doc["replay"]
    variant = rp.get("variant", "asan")
    paths = build(variant if variant in ("asan", "rel") else "asan")
    if "files" in rp and isinstance(rp["files"], list):
        blobs = [b.encode("latin-1") if isinstance(b, str) else bytes.fromhex(b["hex"]) for b in rp["files"]]
        sin = rp.get("stdin")
        if isinstance(sin, str):
            sin = sin.encode("latin-1")
        run_files(ck, paths, rp.get("label", "replay"), blobs, rp.get("args", []), sin, rp.get("class", "replay"), 0)
    with ck.lock:
        ck.nontrivial |= set(range(200))
