"""C03: the alignment does not depend on the order of the input sequences."""
from vf import common, fmt, gen, kal
from vf.build import build

MIN_NONTRIVIAL = 20


def gen_case(rng, big=False):
    kind = rng.choice(["dna", "protein", "protein", "rna"])
    alpha = {"dna": gen.DNA, "rna": gen.RNA, "protein": gen.AA}[kind]
    mode = rng.choice(["equal", "equal", "family", "dups", "mixed"])
    n = rng.randint(100, 400) if big else (rng.randint(2, 99) if rng.random() < 0.7 else rng.randint(51, 99))
    L = rng.randint(10, 60) if big else rng.randint(5, 200)
    if mode == "equal":
        root = gen.rand_seq(rng, L, alpha)
        seqs = [gen.mutate(rng, root, alpha, rng.choice([0.05, 0.2]), 0.0)[:L].ljust(L, alpha[0]) for _ in range(n)]
    elif mode == "family":
        seqs = gen.family(rng, n, L, alpha, rng.choice(["random", "star", "balanced", "caterpillar"]), 0.15, 0.04)
    elif mode == "dups":
        base = gen.family(rng, max(2, n // 3), L, alpha, "random", 0.15, 0.03)
        seqs = [rng.choice(base) for _ in range(n)]
    else:
        seqs = gen.family(rng, n, L, alpha, "random", 0.2, 0.05)
        # force groups of equal length
        for i in range(0, len(seqs) - 1, 3):
            seqs[i + 1] = gen.mutate(rng, seqs[i], alpha, 0.1, 0.0)[:len(seqs[i])].ljust(len(seqs[i]), alpha[0])
    if kind == "protein":
        tot = sum(len(s) for s in seqs)
        po = sum(1 for s in seqs for c in s if c in gen.AA_ONLY)
        if po * 3 < tot + 3:
            seqs = [s + "".join(rng.choice(gen.AA_ONLY) for _ in range(len(s) // 2 + 1)) for s in seqs]
    if rng.random() < 0.12 and len(seqs) >= 3:
        # a record without residues (dropped by kalign) somewhere in the input
        seqs.insert(rng.randint(0, len(seqs) - 1), "")
    style = rng.choice(["s", "rand", "long", "num", "prefix"]) if n <= 150 else rng.choice(["s", "num", "rand"])
    names = gen.names(rng, len(seqs), style)
    if rng.random() < 0.15:
        # FASTA headers "identifier description": the whole line is the name; many records share the identifier and differ only in the description
        ids = ["".join(rng.choice(gen.NAMECHARS[:36] if hasattr(gen, "NAMECHARS") else "abc") for _ in range(rng.randint(2, 8))) for _ in range(rng.choice([1, 1, 2, 3]))]
        order = list(range(len(seqs)))
        rng.shuffle(order)
        names = ["%s %s %d" % (rng.choice(ids), rng.choice(["chain", "isoform", "clone", "x"]), k) for k in order]
    return kind, list(zip(names, seqs))


def permutations(rng, recs, k):
    out = []
    n = len(recs)
    out.append(list(reversed(recs)))
    r = rng.randint(1, max(1, n - 1))
    out.append(recs[r:] + recs[:r])
    while len(out) < k:
        p = list(recs)
        rng.shuffle(p)
        out.append(p)
    return [p for p in out[:k] if p != recs] or [list(reversed(recs))]


def run_case(ck, paths, idx, big):
    rng = ck.rng.__class__(ck.seed * 15485863 + idx)
    kind, recs = gen_case(rng, big)
    word = rng.choice(kal.ADMISSIBLE[kind])
    nt = rng.choice([1, 4, 16])
    ctx = {"kind": kind, "type": word, "idx": idx, "big": big}
    # sometimes one record carries gap characters in the input (they are stripped by kalign); its position moves with the permutation
    gapped_name = None
    if len(recs) > 50 and rng.random() < 0.5:
        cand = [n for n, s in recs[50:] if len(s) > 4]
        if cand:
            gapped_name = rng.choice(cand)
            ck.count("inputs_with_gap_characters_in_one_record")

    block_fmt = None
    if any(" " in n_ for n_, _ in recs):
        ck.count("inputs_with_headers_sharing_the_first_word")
    if gapped_name is None and max(len(n_) for n_, _ in recs) <= 60 and all(s_ for _, s_ in recs) and not any(" " in n_ for n_, _ in recs) and rng.random() < 0.25:
        block_fmt = rng.choice(["msf", "clu"])
        ck.count("inputs_presented_as_%s" % block_fmt)

    def present(rs):
        if block_fmt is not None:
            rows_ = gen.insert_gaps(ck.rng.__class__(idx), [s_ for _, s_ in rs], 0.2, "-")
            f_ = ck.tmp("." + block_fmt)
            text = fmt.write_msf(list(zip([n_ for n_, _ in rs], rows_)), protein=(kind == "protein")) if block_fmt == "msf" else fmt.write_clustal(list(zip([n_ for n_, _ in rs], rows_)))
            common.write_bytes(f_, text)
            return [f_]
        if gapped_name is None:
            return None
        out = []
        for n, s in rs:
            if n == gapped_name:
                k = len(s) // 2
                s = s[:k] + "--" + s[k:k + 2] + "." + s[k + 2:]
            out.append((n, s))
        f_ = ck.tmp(".fa")
        common.write_bytes(f_, fmt.write_fasta(out))
        return [f_]

    res, base = kal.cli_align(ck, paths, recs=recs, files=present(recs), word=word, nthreads=nt, ctx=ctx)
    if base is None:
        if res.proc.rc == 1:
            ck.violation("rejected-valid-input", res.stderr[-300:], dict(ctx, input=recs))
        return
    errs = fmt.check_alignment([r for r in recs if r[1]], base, "base")
    if errs:
        ck.violation("base-output-invalid", errs[0], dict(ctx, input=recs))
        return
    bcols = fmt.columns(base)
    lens = [len(s) for _, s in recs if s]
    if any(not s for _, s in recs):
        ck.count("inputs_with_an_empty_record")
    has_ties = len(set(lens)) < len(lens)
    nperm = 2 if big else rng.choice([2, 3, 4])
    use_lib_multi = rng.random() < 0.25 and not big
    for pi, perm in enumerate(permutations(rng, recs, nperm)):
        nt2 = rng.choice([1, 4, 16])
        if use_lib_multi and pi == 0 and len(perm) >= 4:
            # several files read in a different order through the CLI
            cut = rng.randint(2, len(perm) - 2)
            f1, f2 = ck.tmp(".fa"), ck.tmp(".fa")
            common.write_bytes(f1, fmt.write_fasta(perm[:cut]))
            common.write_bytes(f2, fmt.write_fasta(perm[cut:]))
            res2, rows = kal.cli_align(ck, paths, recs=perm, files=[f1, f2], word=word, nthreads=nt2, ctx=dict(ctx, multi_file=True))
            ck.count("permutations_via_two_files")
        else:
            res2, rows = kal.cli_align(ck, paths, recs=perm, files=present(perm), word=word, nthreads=nt2, ctx=ctx)
        ck.count("permutations_tried")
        if rows is None:
            if res2.proc.rc == 1:
                ck.violation("permutation-rejected", "a permutation of an accepted input was rejected: %s" % res2.stderr[-200:], dict(ctx, input=perm))
            continue
        errs = fmt.check_alignment([r for r in perm if r[1]], rows, "permuted")
        if errs:
            ck.violation("permuted-output-invalid:" + errs[0].split(":")[1].strip().split(" ")[0], errs[0], dict(ctx, input=perm))
            continue
        pcols = fmt.columns(rows)
        if pcols != bcols:
            diff = len(bcols ^ pcols)
            ex = sorted(tuple(sorted(c)) for c in (bcols - pcols))[:1]
            ck.violation("columns-differ:%s" % ("ge100" if len(recs) >= 100 else "lt100"),
                         "%d sequences (%s, type %s): permuting the input changes the alignment: %d columns differ, e.g. base column %s is not a column of the permuted run" % (
                             len(recs), kind, word, diff, ex), dict(ctx, input=recs, permuted=[n for n, _ in perm], nthreads=[nt, nt2]))
    ck.evaluated((idx, len(recs), hash(tuple(recs)) & 0xffffff) if any("-" in s for _, s in base) else None)
    ck.count("inputs")
    if has_ties:
        ck.count("inputs_with_equal_length_sequences")
    ck.count("inputs_ge_100" if len(recs) >= 100 else "inputs_lt_100")
    ck.count("type_%s" % (word or "undefined"))
    if idx < 3:
        ck.sample({"kind": kind, "n": len(recs), "type": word, "names": [n[:30] for n, _ in recs[:4]], "lengths": lens[:8]})


def run(ck, tier):
    paths = build("asan")
    sc = getattr(ck, "scale", 1.0)
    nsmall, nbig = (80, 8) if tier == "quick" else (900, 70)
    jobs = [(i, False) for i in range(int(nsmall * sc))] + [(100000 + i, True) for i in range(int(nbig * sc))]
    common.pmap(lambda j: run_case(ck, paths, j[0], j[1]), jobs, workers=10)
    ck.rule = ("uniquely named record sets full of sort ties (all sequences of equal length, groups of equal length, duplicates under different names; names "
               "differing late, numeric names, 'identifier description' headers sharing the identifier) with 2..99 and 100..400 sequences; reversal, rotation and random permutations (some split over two files); "
               "all admissible types; threads 1/4/16. Oracle: set of columns, a column being the set of (name, residue index). Non-trivial = base alignment contains gaps.")
    ck.assumptions = ["names (whole header lines) pairwise distinct within their first 200 characters; headers with blanks only in FASTA presentations"]


def replay(ck, doc):
    paths = build("asan")
    rp = doc["replay"]
    run_case(ck, paths, rp["idx"], rp.get("big", False))
    with ck.lock:
        ck.nontrivial |= set(range(30))
