"""C01: alignment integrity - every input sequence is reproduced exactly."""
import os

from vf import common, fmt, gen, kal
from vf.build import build

MIN_NONTRIVIAL = 20


def penalties(rng):
    r = rng.random()
    if r < 0.6:
        return None, None, None
    pick = lambda: rng.choice([None, 0.0, 0.5, 2.0, 8.0, 55.0, 400.0])
    return pick(), pick(), pick()


QUICK = [False]


def gen_case(rng, cls):
    """returns dict(kind, recs[(name, seq)] incl. possibly empty seqs)"""
    if cls == "bulk":
        kind, seqs = gen.seqset(rng, None, 2, 40, 1, 300)
    elif cls == "boundary_len":
        kind = rng.choice(["dna", "protein"])
        alpha = gen.DNA if kind == "dna" else gen.AA
        L = rng.choice(gen.BOUNDARY_LENGTHS)
        n = rng.randint(2, 6)
        seqs = gen.family(rng, n, L, alpha, psub=0.1, pindel=rng.choice([0, 0.01]))
        seqs[0] = gen.rand_seq(rng, L, alpha) if rng.random() < 0.3 else seqs[0][:L].ljust(L, alpha[0])
        if kind == "protein":
            kind, seqs = _ensure_protein(rng, seqs)
    elif cls == "boundary_n":
        kind = rng.choice(["dna", "protein"])
        alpha = gen.DNA if kind == "dna" else gen.AA
        n = rng.choice([2, 3, 99, 100, 101, 160])
        seqs = gen.family(rng, n, rng.randint(20, 60), alpha, psub=0.15, pindel=0.03)
        if kind == "protein":
            kind, seqs = _ensure_protein(rng, seqs)
    elif cls == "many":
        kind = rng.choice(["dna", "protein"])
        alpha = gen.DNA if kind == "dna" else gen.AA
        n = rng.choice([511, 512, 513, 1025, 1500, 3000])
        if QUICK[0] and n == 3000:
            n = 1500   # 3000 short divergent sequences can come back 50000 columns wide (minutes of writing): thorough tier only
        seqs = gen.family(rng, n, rng.randint(8, 30), alpha, psub=0.2, pindel=0.05)
        if kind == "protein":
            kind, seqs = _ensure_protein(rng, seqs)
    elif cls == "huge":
        kind = rng.choice(["dna", "protein"])
        alpha = gen.DNA if kind == "dna" else gen.AA
        n = rng.choice([4200, 5200, 6100])
        seqs = gen.family(rng, n, rng.randint(6, 16), alpha, psub=0.2, pindel=0.05)
        if kind == "protein":
            kind, seqs = _ensure_protein(rng, seqs)
    elif cls == "many_long":
        # many merges of more than 1024 columns running at the same time in different subtrees
        kind = "dna"
        n = rng.randint(12, 28)
        seqs = gen.family(rng, n, rng.choice([1040, 1150]), gen.DNA, "balanced", 0.08, 0.005, 6)
    elif cls == "long":
        kind = rng.choice(["dna", "protein"])
        alpha = gen.DNA if kind == "dna" else gen.AA
        n = rng.randint(2, 5)
        seqs = gen.family(rng, n, rng.randint(2000, 6000), alpha, psub=0.1, pindel=0.01, maxindel=20)
        if kind == "protein":
            kind, seqs = _ensure_protein(rng, seqs)
    elif cls == "ratio":
        kind = "dna"
        long = gen.rand_seq(rng, 5000, gen.DNA)
        seqs = [long, long[rng.randint(0, 4000):][:1], long[100:130], "A"]
        rng.shuffle(seqs)
    elif cls == "odd_letters":
        # letters outside kalign's alphabets must come back unchanged as well (U/J/O in protein, X or other letters in nucleotides, IUPAC codes)
        kind = rng.choice(["dna", "protein"])
        if kind == "protein":
            base, odd = gen.AA, "UJOBZX"
        else:
            base, odd = gen.DNA, rng.choice(["X", "XI", "RYSWKMBDHVN", "N"])
        n = rng.randint(2, 60)
        seqs = gen.family(rng, n, rng.randint(10, 150), base, psub=0.15, pindel=0.03)
        seqs = ["".join(rng.choice(odd) if rng.random() < 0.06 else c for c in s) for s in seqs]
        if kind == "protein":
            kind, seqs = _ensure_protein(rng, seqs)
    elif cls == "near_end":
        # members that lack residues directly before the last / after the first residue of their relatives; prefixes and suffixes
        kind = rng.choice(["dna", "protein"])
        alpha = gen.DNA if kind == "dna" else gen.AA
        n = rng.randint(3, 30)
        root = gen.rand_seq(rng, rng.randint(12, 120), alpha)
        seqs = []
        for _ in range(n):
            s_ = gen.mutate(rng, root, alpha, 0.05, 0.0)
            r_ = rng.random()
            k = rng.randint(1, 4)
            if r_ < 0.3 and len(s_) > 8:
                s_ = s_[:-1 - k] + s_[-1:]
            elif r_ < 0.5 and len(s_) > 8:
                s_ = s_[:1] + s_[1 + k:]
            elif r_ < 0.7:
                s_ = s_[:rng.randint(max(2, len(s_) // 2), len(s_))]
            seqs.append(s_)
        if kind == "protein":
            kind, seqs = _ensure_protein(rng, seqs) if rng.random() < 0.3 else (kind, seqs)
            tot = sum(len(x) for x in seqs)
            if sum(1 for x in seqs for c in x if c in gen.AA_ONLY) * 4 < tot:
                kind, seqs = _ensure_protein(rng, seqs)
    elif cls == "outlier":
        # >= 100 related sequences plus one unrelated one (a k-means cluster of exactly one member)
        kind = "protein"
        fam = gen.family(rng, rng.choice([100, 130, 180]), rng.randint(30, 70), gen.AA, psub=0.15, pindel=0.03)
        out_ = gen.rand_seq(rng, rng.choice([60, 248, 400]), rng.choice(["WCHMYFP", "GPNDSTQ", gen.AA]))
        seqs = list(fam)
        seqs.insert(rng.randint(0, len(seqs)), out_)
        kind, seqs = _ensure_protein(rng, seqs)
    elif cls == "late_gaps":
        # more than 50 records; gap characters only in records after the 50th (the input is an incomplete / partial alignment)
        kind = rng.choice(["dna", "protein"])
        alpha = gen.DNA if kind == "dna" else gen.AA
        n = rng.randint(51, 130)
        seqs = gen.family(rng, n, rng.randint(15, 60), alpha, psub=0.15, pindel=0.05)
        if kind == "protein":
            kind, seqs = _ensure_protein(rng, seqs)
    elif cls == "empties":
        kind, seqs = gen.seqset(rng, None, 3, 20, 5, 120)
        k = rng.randint(1, max(1, len(seqs) // 3))
        for _ in range(k):
            seqs.insert(rng.randint(0, len(seqs)), "")
        if sum(1 for s in seqs if s) < 2:
            seqs += ["ACGTACGT", "ACGGT"] if kind != "protein" else ["MKVLDEFW", "MKILDEW"]
    elif cls == "huge_header":
        # database-style definition lines can be tens of thousands of characters long (many merged entries): one physical line
        # longer than any fixed I/O buffer (2^16, 2^17) must still come back as the name, and must not leak into the residues
        kind, seqs = gen.seqset(rng, None, 3, 8, 10, 120)
        hl = [rng.choice([65533, 65534, 65535, 65536, 65537, 70000, 131071, 131072, 140000]) for _ in range(rng.randint(1, 2))]
        names = gen.names(rng, len(seqs), "s")
        for k, L_ in enumerate(hl):
            body = "".join(rng.choice("ACDEFGHIKLMNPQRSTVWYacgt0123456789_.|-= ") for _ in range(L_ - len(names[k]) - 1))
            while "  " in body:
                body = body.replace("  ", " _")
            names[k] = (names[k] + "_" + body).rstrip() or names[k]
            names[k] = names[k] if not names[k].endswith(" ") else names[k][:-1] + "x"
        return {"kind": kind, "recs": list(zip(names, seqs)), "spaces": True, "cls": cls}
    else:
        raise ValueError(cls)
    # letter case
    r = rng.random()
    if r < 0.25:
        seqs = [gen.random_case(rng, s, rng.choice([0.1, 0.5, 1.0])) for s in seqs]
    style = rng.choice(["s", "rand", "long", "num", "prefix", "space"]) if len(seqs) <= 200 else "s"
    if style == "space":
        names = ["seq %d some description | x=%d" % (i, rng.randint(0, 9)) for i in range(len(seqs))]
    else:
        names = gen.names(rng, len(seqs), style)
    return {"kind": kind, "recs": list(zip(names, seqs)), "spaces": style == "space", "cls": cls}


def _ensure_protein(rng, seqs):
    tot = sum(len(s) for s in seqs)
    po = sum(1 for s in seqs for c in s if c.upper() in gen.AA_ONLY)
    if po * 3 < tot + 3:
        seqs = [s + "".join(rng.choice(gen.AA_ONLY) for _ in range(len(s) // 2 + 1)) for s in seqs]
    return "protein", seqs


def check_case(ck, paths_small, paths_big, case, idx):
    rng = ck.rng.__class__(ck.seed * 7919 + idx)
    recs = case["recs"]
    kind = case["kind"]
    nonempty = [(n, s) for n, s in recs if s]
    big = case["cls"] in ("many", "long", "huge", "many_long")
    paths = paths_big if big else paths_small
    word = rng.choice(kal.ADMISSIBLE[kind])
    gpo, gpe, tgpe = penalties(rng)
    if big:
        # free gap extension on thousands of sequences makes the alignment (and the run time) explode: defaults only for the large classes
        gpo, gpe, tgpe = None, None, None
    nt = rng.choice([1, 2, 3, 8, 16]) if case["cls"] not in ("huge", "many_long") else rng.choice([3, 7, 8, 16])
    ctxbase = {"case_class": case["cls"], "kind": kind, "type": word, "gpo": gpo, "gpe": gpe, "tgpe": tgpe}
    f = ck.tmp(".fa")
    file_recs = recs
    if case["cls"] == "late_gaps" or (case["cls"] == "bulk" and rng.random() < 0.15):
        # the residues are what counts: gap characters present in the input are stripped by kalign
        lo = 50 if case["cls"] == "late_gaps" else 0
        file_recs = []
        for k, (n_, s_) in enumerate(recs):
            if k >= lo and s_ and rng.random() < 0.5:
                for _ in range(rng.randint(1, 4)):
                    p_ = rng.randint(0, len(s_))
                    s_ = s_[:p_] + rng.choice(["-", "--", ".", "-----"]) + s_[p_:]
            file_recs.append((n_, s_))
        ck.count("cases_with_gap_characters_in_the_input")
    common.write_bytes(f, fmt.write_fasta(file_recs, width=rng.choice([60, 60, 80, 1000000])))
    ident = (case["cls"], len(recs), sum(len(s) for _, s in recs), word, nt, hash(tuple(recs)) & 0xffffff)
    had_gap = False

    def judge(rows, what, names=True):
        nonlocal had_gap
        inp = nonempty if names else [("r%d" % i, s) for i, (_, s) in enumerate(nonempty)]
        errs = fmt.check_alignment(inp, rows, what)
        ck.count("outputs_checked")
        ck.count("outputs_%s" % what.split(":")[0])
        if any("-" in s for _, s in rows):
            had_gap = True
        for e in errs:
            kind_key = e.split(":")[1].strip().split(" ")[0:3] if ":" in e else ["?"]
            key = "%s:%s" % (what.split(":")[0], _classify(e))
            ck.violation(key, e, dict(ctxbase, input=recs if len(recs) < 400 else "(large, seed-derived)", nthreads=nt, file_width=None, idx=idx))
        return not errs

    # (b)+(c): library through the file API, msa object + three written files
    outs = {k: ck.tmp("." + k) for k in ("fasta", "msf", "clu")}
    writes = [(k, p) for k, p in outs.items() if not (case["spaces"] and k != "fasta")]
    script = kal.lib_script(f, kal.TYPES[word], gpo if gpo is not None else -1, gpe if gpe is not None else -1,
                            tgpe if tgpe is not None else -1, nt, dump=True, writes=writes)
    if rng.random() < 0.3:
        # a write that fails (device full) before the real ones must not leave anything behind in later files
        k_ = next(i for i, l in enumerate(script) if l.startswith("write "))
        script.insert(k_, "write 0 %s /dev/full" % rng.choice(["msf", "clu", "fasta"]))
        ck.count("cases_with_a_failed_write_before_the_real_ones")
    r, lrecs = common.kvdrv(paths, script, scratch=ck.scratch, timeout=900, cpu=600)
    ctx = dict(ctxbase, input=recs if len(recs) < 400 else "(large)", nthreads=nt, script=script)
    if big and (r.cpu_limited or r.timed_out):
        # thousands of short divergent sequences can come back tens of thousands of columns wide: dumping the object and writing it three times,
        # character by character, then takes longer than the limit. A time limit says nothing about a large case (same rule as in C05)
        ck.count("large_cases_library_part_not_judged_time_limit")
    elif not ck.proc_violations(r, ctx, allow_rcs=(0,)):
        ops = {x["op"]: x for x in lrecs if x.get("op") in ("read", "run")}
        d = next((x for x in lrecs if x.get("op") == "dump"), None)
        if ops.get("read", {}).get("rc") != 0 or ops.get("run", {}).get("rc") != 0 or d is None or d.get("null"):
            ck.violation("library:accepted-input-failed", "kalign_read_input/kalign_run failed on a valid input: %s" % [ops.get("read"), ops.get("run")], ctx)
        else:
            rows = [(x["name"], x["seq"]) for x in d["rows"]]
            ok = judge(rows, "msa-object")
            if d["aligned"] != 3:
                ck.violation("msa-object:not-final", "msa->aligned is %d after kalign_run" % d["aligned"], ctx)
            if rows and d["alnlen"] != len(rows[0][1]):
                ck.violation("msa-object:alnlen", "alnlen %d but rows have %d columns" % (d["alnlen"], len(rows[0][1])), ctx)
            if kal.rows_from_gaps(d) != rows:
                ck.violation("msa-object:gaps-disagree-with-rows", "rows rebuilt from gaps[] differ from the stored gapped rows", ctx)
            ranks = [x["rank"] for x in d["rows"]]
            if ranks != sorted(ranks) or len(set(ranks)) != len(ranks):
                ck.violation("msa-object:rank-order", "ranks after kalign_run are %s" % ranks[:20], ctx)
            for k, p in writes:
                if not os.path.exists(p):
                    ck.violation("file-%s:not-written" % k, "kalign_write_msa(%s) produced no file" % k, ctx)
                    continue
                try:
                    frows = kal.parse_output(open(p, "rb").read(), k)
                except fmt.FormatError as ex:
                    ck.violation("file-%s:unparsable" % k, str(ex), ctx)
                    continue
                judge(frows, "file-%s" % k)
                if ok and frows != rows:
                    ck.violation("file-%s:differs-from-msa-object" % k, "rows parsed from the %s file differ from the msa object" % k, ctx)
    # (d) CLI
    cf = rng.choice([None, "fasta", "msf", "clu"]) if not case["spaces"] else rng.choice([None, "fasta"])
    to_stdout = rng.random() < 0.4
    res, rows = kal.cli_align(ck, paths, recs=recs, files=[f], word=word, gpo=gpo, gpe=gpe, tgpe=tgpe, nthreads=nt, format=cf,
                              to_stdout=to_stdout, ctx=ctxbase, timeout=900, cpu=600)
    if res.proc.rc == 0 and rows is not None:
        judge(rows, "cli-%s-%s" % ("stdout" if to_stdout else "file", cf or "default"))
    elif res.proc.rc not in (0, None) and not any(v for v in ck.violations if "input" in v):
        if res.proc.rc == 1:
            ck.violation("cli:accepted-input-failed", "kalign exited 1 on a valid input: %s" % res.stderr[-300:], dict(ctxbase, input=recs if len(recs) < 400 else "(large)"))
    # (a) array API
    if len(nonempty) == len(recs) and (len(recs) <= 600 or case["cls"] == "huge"):
        sf = ck.tmp(".seqs")
        common.write_bytes(sf, "".join(s + "\n" for _, s in recs))
        r, arecs = common.kvdrv(paths, ["arr %s %d %d %s %s %s" % (sf, nt, kal.TYPES[word], common.fnum(gpo if gpo is not None else -1),
                                                                  common.fnum(gpe if gpe is not None else -1), common.fnum(tgpe if tgpe is not None else -1))],
                                scratch=ck.scratch, timeout=900, cpu=600)
        ctx = dict(ctxbase, input=recs if len(recs) < 400 else "(large)", nthreads=nt, api="kalign()")
        if not ck.proc_violations(r, ctx, allow_rcs=(0,)):
            a = next((x for x in arecs if x.get("op") == "arr"), None)
            if a is None or a["rc"] != 0:
                ck.violation("array-api:accepted-input-failed", "kalign() failed on a valid input", ctx)
            else:
                arows = [("r%d" % i, s) for i, s in enumerate(a["rows"])]
                judge(arows, "array-api", names=False)
                if a["alnlen"] != (len(arows[0][1]) if arows else -1):
                    ck.violation("array-api:alnlen", "out_aln_len %d but rows have %d columns" % (a["alnlen"], len(arows[0][1])), ctx)
    ck.evaluated(ident if had_gap else None)
    ck.count("cases_%s" % case["cls"])
    ck.count("type_%s" % (word or "undefined"))
    ck.cmax("max_sequences", len(recs))
    ck.cmax("max_length", max(len(s) for _, s in recs))
    if had_gap:
        ck.count("cases_with_gaps_in_output")
    if idx < 3:
        ck.sample({"class": case["cls"], "kind": kind, "n": len(recs), "type": word, "penalties": [gpo, gpe, tgpe], "threads": nt,
                   "first_record": [recs[0][0][:40], recs[0][1][:60]]})


def _classify(e):
    for k in ("rows for", "is named", "has length", "contains characters", "de-gapped", "gaps only", "empty rows"):
        if k in e:
            return k.replace(" ", "-")
    return "other"


def run(ck, tier):
    paths = build("asan")
    sc = getattr(ck, "scale", 1.0)
    QUICK[0] = tier == "quick"
    if tier == "quick":
        plan = [("huge", 2), ("odd_letters", 10), ("late_gaps", 6), ("near_end", 12), ("outlier", 3), ("many_long", 3), ("bulk", 100), ("boundary_len", 17), ("boundary_n", 6), ("empties", 8), ("ratio", 2), ("many", 1), ("long", 1), ("huge_header", 3)]
        big = build("rel")
    else:
        plan = [("huge", 12), ("odd_letters", 150), ("late_gaps", 80), ("near_end", 200), ("outlier", 40), ("many_long", 30), ("bulk", 1200), ("boundary_len", 170), ("boundary_n", 60), ("empties", 120), ("ratio", 20), ("many", 12), ("long", 12), ("huge_header", 30)]
        big = build("rel")
    cases = []
    for cls, n in plan:
        for _ in range(max(1, int(n * sc))):
            cases.append(gen_case(ck.rng, cls))
    # boundary lengths: make sure every listed boundary appears at least once
    common.pmap(lambda ic: check_case(ck, paths, big, ic[1], ic[0]), list(enumerate(cases)), workers=12)
    ck.rule = ("generated sequence sets (families over random/star/caterpillar/balanced trees, random, low-complexity, duplicates, 1-vs-5000 length ratio, "
               "equal lengths, empty records mixed in, letters outside the alphabets (U/J/O, X, IUPAC), gap characters already present in the input (also only after the 50th record), definition lines of 65533..140000 characters, buffer-boundary lengths and counts) x admissible type x default/user penalties x threads {1,2,3,8,16}; "
               "each case is observed at kalign() arrays, the msa object, the three written files and the CLI output; every output must reproduce the input "
               "rows exactly (C01 oracle in vf/fmt.py:check_alignment). Non-trivial = an output that contains at least one gap; distinct by input content+settings.")
    ck.assumptions = ["independent FASTA/Clustal/MSF parsers in vf/fmt.py", "names without whitespace for MSF/Clustal outputs (format definition)"]


def replay(ck, doc):
    rp = doc["replay"]
    paths = build("asan")
    if isinstance(rp.get("input"), list):
        case = {"kind": rp["kind"], "recs": [tuple(x) for x in rp["input"]], "spaces": any(" " in x[0] for x in rp["input"]), "cls": rp.get("case_class", "bulk")}
        for i in range(6):
            check_case(ck, paths, paths, case, rp.get("idx", 0) + i * 0)
    else:
        run(ck, doc.get("tier", "quick"))
