"""C15: written alignment files are self-consistent and correctly labelled."""
import os
import re

from vf import alnsrc, common, fmt, gen, kal
from vf.build import build

MIN_NONTRIVIAL = 15
FORMATS = ["fasta", "msf", "clu"]


def check_fasta(data, A):
    errs = []
    try:
        rows = fmt.parse_fasta(data, strict_width=60)
    except fmt.FormatError as ex:
        return [("fasta-wrap", str(ex))]
    if rows != A:
        errs.append(("fasta-content", "rows in the FASTA file differ from the alignment"))
    return errs


def check_clu(data, A):
    errs = []
    try:
        header, rows, widths = fmt.parse_clustal(data)
    except fmt.FormatError as ex:
        return [("clustal-structure", str(ex))]
    if "multiple sequence alignment" not in header or not re.search(r"kalign|clustal", header, re.I):
        errs.append(("clustal-header", "first line %r does not name the program and 'multiple sequence alignment'" % header[:80]))
    if any(w > 60 or w < 1 for w in widths):
        errs.append(("clustal-block-width", "block widths %s exceed 60 columns" % sorted(set(widths))[-3:]))
    if any(w != 60 for w in widths[:-1]):
        errs.append(("clustal-block-width", "a block other than the last is not 60 columns wide: %s" % widths[:5]))
    if rows != A:
        errs.append(("clustal-content", "concatenated blocks differ from the alignment"))
    return errs


def check_msf(data, A, protein):
    errs = []
    try:
        m = fmt.parse_msf(data)
    except fmt.FormatError as ex:
        return [("msf-structure", str(ex))]
    L = len(A[0][1])
    want_first = "!!AA_MULTIPLE_ALIGNMENT" if protein else "!!NA_MULTIPLE_ALIGNMENT"
    if not m["first"].startswith(want_first):
        errs.append(("msf-first-line-type", "first line %r, expected %s for %s input" % (m["first"][:40], want_first, "protein" if protein else "nucleotide")))
    if m["msf_len"] != L:
        errs.append(("msf-header-length", "header declares MSF: %d, the alignment has %d columns" % (m["msf_len"], L)))
    if m["type"] != ("P" if protein else "N"):
        errs.append(("msf-header-type", "header declares Type: %s for %s input" % (m["type"], "protein" if protein else "nucleotide")))
    if [n for n, _, _ in m["names"]] != [n for n, _ in A]:
        errs.append(("msf-names", "Name: lines do not list the sequences in order"))
    else:
        tot = 0
        for (n, ln, chk), (_, row) in zip(m["names"], A):
            want = fmt.gcg_checksum(row)
            tot += want
            if ln != L:
                errs.append(("msf-name-len", "Name: %s declares Len: %d, alignment length is %d" % (n[:30], ln, L)))
                break
            if chk != want:
                errs.append(("msf-row-checksum", "Name: %s declares Check: %d, GCG checksum of the written row is %d" % (n[:30], chk, want)))
                break
        if not errs and m["check"] != tot % 10000:
            errs.append(("msf-header-checksum", "header Check: %d, sum of row checksums mod 10000 is %d" % (m["check"], tot % 10000)))
    if any(w > 60 or w < 1 for w in m["widths"]) or any(w != 60 for w in m["widths"][:-1]):
        errs.append(("msf-block-width", "block widths %s" % m["widths"][:6]))
    if m["rows"] != A:
        errs.append(("msf-content", "concatenated blocks differ from the alignment"))
    return errs


def run_case(ck, paths, idx):
    rng = ck.rng.__class__(ck.seed * 141650939 + idx)
    case = alnsrc.gen_alignment_input(rng)
    recs, kind = case["recs"], case["kind"]
    f = ck.tmp(".fa")
    common.write_bytes(f, fmt.write_fasta(recs))
    d = ck.tmpdir()
    nt = rng.choice([1, 4])
    # output file names of up to 240 characters (the MSF header line carries the base name)
    stem = {F: ("a" if rng.random() < 0.7 else "n" * rng.choice([150, 200, 240])) for F in FORMATS}
    script = ["read 0 %s" % f, "run 0 %d 5 -1 -1 -1" % nt, "dump 0"] + ["write 0 %s %s/%s.%s" % (F, d, stem[F], F) for F in FORMATS] + ["free 0"]
    # conversion path: one of the files just written is read back and written again (no kalign_run in between)
    reF = rng.choice(FORMATS)
    script += ["read 1 %s/%s.%s" % (d, stem[reF], reF)] + ["write 1 %s %s/conv.%s" % (F, d, F) for F in FORMATS] + ["free 1"]
    r, lrecs = common.kvdrv(paths, script, scratch=ck.scratch, timeout=900, cpu=600)
    ctx = {"class": case["cls"], "kind": kind, "idx": idx, "input": recs if len(recs) * max(len(s) for _, s in recs) < 40000 else "(seed-derived)"}
    if ck.proc_violations(r, ctx, allow_rcs=(0,)):
        return
    rd = next((x for x in lrecs if x.get("op") == "read"), {})
    rn = next((x for x in lrecs if x.get("op") == "run"), {})
    dd = next((x for x in lrecs if x.get("op") == "dump"), None)
    if rd.get("rc") != 0 or rn.get("rc") != 0 or dd is None:
        ck.violation("library-rejected-valid-input", "read/run failed", ctx)
        return
    A = [(x["name"], x["seq"]) for x in dd["rows"]]
    protein = dd["biotype"] == 0
    width = dd["alnlen"]
    files = {}
    for F in FORMATS:
        p = "%s/%s.%s" % (d, stem[F], F)
        if len(stem[F]) > 100:
            ck.count("files_with_output_name_over_100_chars")
        if not os.path.exists(p):
            ck.violation("file-missing:%s" % F, "no %s file written" % F, ctx)
            continue
        files[(F, "file")] = open(p, "rb").read()
    if any("-" in s_ for _, s_ in A):
        for F in FORMATS:
            p = "%s/conv.%s" % (d, F)
            if os.path.exists(p):
                files[(F, "converted-from-%s" % reF)] = open(p, "rb").read()
            else:
                ck.violation("file-missing:converted-%s" % F, "conversion %s -> %s of a gapped alignment produced no file" % (reF, F), ctx)
    # the same alignment through the CLI to stdout in one random format
    F = rng.choice(FORMATS)
    res = common.kalign_cli(paths, [f], args=["-f", F], nthreads=nt, out=None)
    if not ck.proc_violations(res.proc, dict(ctx, via="cli-stdout", format=F)) and res.rc == 0:
        files[(F, "stdout")] = res.out_bytes
    for (F, via), data in files.items():
        if F == "fasta":
            errs = check_fasta(data, A)
        elif F == "clu":
            errs = check_clu(data, A)
        else:
            errs = check_msf(data, A, protein)
        ck.count("files_parsed")
        ck.count("files_%s_%s" % (F, via))
        for k, e in errs:
            ck.violation("%s:%s" % (k, "protein" if protein else "nucleotide") if k.startswith("msf-") and "type" in k else k,
                         "%s (%s via %s; alignment %d rows x %d columns, %s)" % (e, F, via, len(A), width, "protein" if protein else "nucleotide"),
                         dict(ctx, format=F, via=via))
    gapped = any("-" in s for _, s in A)
    ck.evaluated((idx, case["cls"], len(A), width, hash(tuple(recs)) & 0xffffff) if gapped else None)
    ck.count("alignments")
    ck.count("alignments_protein" if protein else "alignments_nucleotide")
    ck.count("class_%s" % case["cls"])
    ck.count("width_%s" % ("multiple_of_60" if width % 60 == 0 else ("le_60" if width < 60 else "other")))
    ck.cmax("max_rows", len(A))
    ck.cmax("max_width", width)
    ck.cmax("max_name_length", max(len(n) for n, _ in A))
    if idx < 3:
        ck.sample({"class": case["cls"], "rows": len(A), "width": width, "protein": protein, "formats_checked": sorted("%s/%s" % k for k in files)})


WIDE = [65535, 65536, 65537, 65580, 65596, 65600, 65700, 70000, 131071, 131072, 131100, 131172, 196620]


def run_wide(ck, paths, idx):
    """alignments wider than 2^16 / 2^17 columns, read from an aligned file and written in the three formats (no kalign_run:
    aligning such widths under ASan would take minutes per case, the writers are the same)"""
    rng = ck.rng.__class__(ck.seed * 334214467 + idx)
    W = rng.choice(WIDE)
    kind = rng.choice(["dna", "protein"])
    alpha = gen.DNA if kind == "dna" else "DEFHIKLMPQRSVWYACGT"
    root = gen.rand_seq(rng, W, alpha)
    rows = [root]
    for _ in range(rng.randint(1, 3)):
        rows.append("".join("-" if (x := rng.random()) < 0.04 else (rng.choice(alpha) if x < 0.1 else c) for c in root))
    names = gen.names(rng, len(rows), "s")
    f = ck.tmp(".afa")
    common.write_bytes(f, fmt.write_fasta(list(zip(names, rows)), width=rng.choice([60, 80, 1000000])))
    d = ck.tmpdir()
    script = ["read 0 %s" % f, "dump 0"] + ["write 0 %s %s/w.%s" % (F, d, F) for F in FORMATS] + ["free 0"]
    r, lrecs = common.kvdrv(paths, script, scratch=ck.scratch, timeout=900, cpu=600)
    ctx = {"class": "very_wide", "kind": kind, "idx": idx, "width": W, "rows": len(rows), "wide": True}
    if ck.proc_violations(r, ctx, allow_rcs=(0,)):
        return
    rd = next((x for x in lrecs if x.get("op") == "read"), {})
    dd = next((x for x in lrecs if x.get("op") == "dump"), None)
    if rd.get("rc") != 0 or dd is None or dd.get("null"):
        ck.violation("library-rejected-valid-input", "reading an aligned FASTA file of %d columns failed" % W, ctx)
        return
    A = kal.rows_from_gaps(dd)
    if A != list(zip(names, rows)):
        # not this property's business (C04/C06 decide how aligned input is taken in); without the true alignment nothing is judged
        ck.count("wide_cases_skipped_msa_object_differs_from_file")
        return
    protein = dd["biotype"] == 0
    for F in FORMATS:
        p = "%s/w.%s" % (d, F)
        if not os.path.exists(p):
            ck.violation("file-missing:%s" % F, "no %s file written for an alignment of %d columns" % (F, W), ctx)
            continue
        data = open(p, "rb").read()
        errs = check_fasta(data, A) if F == "fasta" else (check_clu(data, A) if F == "clu" else check_msf(data, A, protein))
        ck.count("files_parsed")
        ck.count("files_%s_very_wide" % F)
        for k, e in errs:
            ck.violation("%s:%s" % (k, "protein" if protein else "nucleotide") if k.startswith("msf-") and "type" in k else k,
                         "%s (%s; alignment %d rows x %d columns read from an aligned file)" % (e, F, len(A), W), dict(ctx, format=F))
    ck.evaluated(("wide", idx, W, len(rows), hash(root) & 0xffffff))
    ck.count("alignments")
    ck.count("class_very_wide")
    ck.cset("very_wide_widths", W)
    ck.cmax("max_width", W)


def run(ck, tier):
    paths = build("asan")
    sc = getattr(ck, "scale", 1.0)
    n = int((80 if tier == "quick" else 1500) * sc)
    nw = max(1, int((4 if tier == "quick" else 40) * sc))
    common.pmap(lambda i: run_wide(ck, paths, i) if i < 0 else run_case(ck, paths, i), list(range(-nw, 0)) + list(range(n)), workers=12)
    ck.rule = ("the alignment inputs of C06 (widths around multiples of 60, names 1..200 chars, 2..600 rows, outputs crossing 1024/2048 lines, both kinds) plus alignments of 65535..196620 columns read from aligned files; every alignment "
               "is written by kalign_write_msa in fasta/msf/clu and by the CLI to stdout, and parsed by strict independent readers: FASTA wrapped at exactly 60, Clustal "
               "header + blocks of <= 60 equal-width columns listing every sequence in order, MSF type line / MSF: length / Type: / per-row Len and GCG checksum over the "
               "whole written row / header checksum / '//' / blocks. The true alignment comes from the msa object. Non-trivial = alignment containing gaps.")
    ck.assumptions = ["names without whitespace", "kind = msa->biotype as detected by kalign (checked against letters in C13)"]


def replay(ck, doc):
    paths = build("asan")
    if doc["replay"].get("wide"):
        run_wide(ck, paths, doc["replay"]["idx"])
    else:
        run_case(ck, paths, doc["replay"]["idx"])
    with ck.lock:
        ck.nontrivial |= set(range(30))
