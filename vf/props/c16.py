"""C16: a library call's result does not depend on the calls made before it.

History = interleaved jobs executed by one kvdrv process; every job is then replayed alone in a fresh
process and the digests (status codes, msa dumps, scores, bytes of written files) must agree.  After the
last free the allocation-accounting runtime (rt/verif_alloc.c, --wrap build) must report 0 live blocks."""
import hashlib
import os
import re

from vf import common, fmt, gen, kal
from vf.build import build

MIN_NONTRIVIAL = 6


def mask_msf(data):
    # the MSF header line carries the time of writing and the output file's base name
    out = []
    for ln in data.split(b"\n"):
        if b"MSF:" in ln and b"Check:" in ln:
            m = re.search(rb"MSF:\s*(\d+)\s+Type:\s*(\S).*Check:\s*(\d+)", ln)
            ln = b"<MSF header len=%s type=%s check=%s>" % (m.group(1), m.group(2), m.group(3)) if m else b"<MSF header>"
        out.append(ln)
    return b"\n".join(out)


class Job:
    def __init__(self, kind, lines, files_out, descr, noise=(), pre=()):
        self.kind = kind
        self.pre = list(pre)        # driver-only lines ({P} = preload slot) executed at the start of the history: the application's input arrays exist before its calls
        self.lines = lines          # script lines with {S} slot placeholder and {O<k>} output placeholders
        self.files_out = files_out  # list of (placeholder, fmt)
        self.descr = descr
        self.noise = set(noise)     # indices of lines that are calls expected to FAIL; they run inside the history only and must leave
                                    # no trace: the solo replay omits them and the digest ignores their records


def make_seq_file(ck, rng, kind=None, equal=False, n=None, long=False, L=None):
    kind = kind or rng.choice(["dna", "protein"])
    alpha = gen.DNA if kind == "dna" else gen.AA
    n = n or rng.randint(2, 25)
    L = L or (rng.randint(8, 150) if not long else rng.choice([1030, 1100, 1600]))
    if equal:
        root = gen.rand_seq(rng, L, alpha)
        seqs = [gen.mutate(rng, root, alpha, 0.15, 0.0)[:L].ljust(L, alpha[0]) for _ in range(n)]
    else:
        seqs = gen.family(rng, n, L, alpha, "random", 0.15, 0.04, 3)
    if kind == "protein":
        seqs = [s + "".join(rng.choice(gen.AA_ONLY) for _ in range(len(s) // 2 + 1)) for s in seqs]
    return kind, seqs


_BIG = {}


def big_file(ck):
    with ck.lock:
        if "p" not in _BIG:
            p = os.path.join(ck.scratch, "big_input.fa")
            rng = ck.rng.__class__(ck.seed + 99)
            lines = ["".join(rng.choice("ACGT") for _ in range(60)) + "\n" for _ in range(50)]
            with open(p, "w") as fh:
                # many short records (a few huge records make the line-by-line reader take minutes, which is not this property's business)
                for r_ in range(rng.choice([72000, 90000, 140000])):
                    fh.write(">b%d d\n" % r_)
                    for k_ in range(4):
                        fh.write(lines[(r_ + k_) % 50])
            _BIG["p"] = p
        return _BIG["p"]


def gen_job(ck, rng, shape=None):
    if shape is not None and rng.random() < 0.75:
        # "same shape" histories: successive calls work on sequences of one common length and kind (batches of reads of one amplicon / one domain),
        # small and >= 100-sequence inputs alternating, mostly one thread: objects freed by one call are handed out again, same size, to the next
        kind, L = shape
        n = rng.choice([2, 2, 3, 5, 100, 110, 120, 130])
        _, seqs = make_seq_file(ck, rng, kind=kind, equal=True, n=n, L=L)
        if n >= 100:
            # two or three unrelated families: which cluster a sequence falls into decides the guide tree
            seqs = []
            nf = rng.choice([2, 2, 3])
            for f_ in range(nf):
                seqs += make_seq_file(ck, rng, kind=kind, equal=True, n=n // nf + (1 if f_ < n % nf else 0), L=L)[1]
        if rng.random() < 0.5 and n < 100:
            seqs[rng.randrange(len(seqs))] += gen.rand_seq(rng, rng.randint(1, 5), gen.DNA if kind == "dna" else gen.AA_ONLY)
        ty = kal.TYPES[rng.choice(kal.ADMISSIBLE[kind])]
        nt = rng.choice([1, 1, 1, 2, 4])
        if rng.random() < 0.5:
            f = ck.tmp(".seqs")
            common.write_bytes(f, "".join(s_ + "\n" for s_ in seqs))
            return Job("arr_same_shape", ["arrp {P} %d %d -1 -1 -1" % (nt, ty)], [], {"kind": kind, "n": len(seqs), "L": L, "threads": nt}, pre=["preload {P} %s" % f])
        fa = ck.tmp(".fa")
        common.write_bytes(fa, fmt.write_fasta(list(zip(gen.names(rng, len(seqs), "s"), seqs))))
        return Job("rrwf_same_shape", ["read {S} %s" % fa, "run {S} %d %d -1 -1 -1" % (nt, ty), "dump {S}", "write {S} fasta {O0}", "free {S}"], [("{O0}", "fasta")],
                   {"kind": kind, "n": len(seqs), "L": L, "threads": nt})
    k = rng.choice(["arr", "arr_equal", "rrwf", "rrwf", "rrwf_multi", "cmp", "rejected", "churn", "churn", "reread", "reread", "big_threads", "failed_read", "one_record",
                    "failed_calls_between", "failed_calls_between"])
    if rng.random() < 0.02:
        k = "big_file"
    if k == "failed_calls_between":
        # read A; [read of a file of the other kind: refused]; read C; [run with a type of the other kind: rejected]; [run with an infinite penalty:
        # rejected]; run; dump; write; free  -- the bracketed calls fail and must not influence the calls after them
        kind, seqs = make_seq_file(ck, rng, n=rng.randint(4, 16))
        names = gen.names(rng, len(seqs), "s")
        recs = list(zip(names, seqs))
        cut = rng.randint(2, len(recs) - 2)
        fa, fc, fb = ck.tmp(".fa"), ck.tmp(".fa"), ck.tmp(".fa")
        common.write_bytes(fa, fmt.write_fasta(recs[:cut]))
        common.write_bytes(fc, fmt.write_fasta(recs[cut:]))
        okind, oseqs = make_seq_file(ck, rng, kind=("protein" if kind == "dna" else "dna"), n=rng.randint(3, 30))
        common.write_bytes(fb, fmt.write_fasta([("o%d" % i, s_) for i, s_ in enumerate(oseqs)]))
        wrong = rng.choice([3, 4]) if kind == "dna" else rng.choice([0, 1, 2])
        ty = kal.TYPES[rng.choice(kal.ADMISSIBLE[kind])]
        nt = rng.choice([1, 4])
        lines = ["read {S} %s" % fa, "read {S} %s" % fb, "read {S} %s" % fc, "run {S} %d %d -1 -1 -1" % (nt, wrong), "run {S} %d %d inf -1 -1" % (nt, ty),
                 "run {S} %d %d -1 -1 -1" % (nt, ty), "dump {S}", "write {S} fasta {O0}", "free {S}"]
        noise = [1]
        which = rng.choice(["merge", "type", "inf", "all"])
        if which in ("type", "all"):
            noise.append(3)
        if which in ("inf", "all"):
            noise.append(4)
        if which not in ("merge", "all"):
            noise.remove(1)
        keep = [i for i in range(len(lines)) if i in noise or i not in (1, 3, 4)]
        lines2 = [lines[i] for i in keep]
        noise2 = [j for j, i in enumerate(keep) if i in noise]
        return Job(k, lines2, [("{O0}", "fasta")], {"kind": kind, "n": len(recs), "failing_calls": which, "threads": nt}, noise=noise2)
    if k == "big_file":
        # an input of 17..33 MiB is read and freed (no alignment): readers may treat large regular files differently
        return Job(k, ["read {S} %s" % big_file(ck), "free {S}"], [], {"bytes": os.path.getsize(big_file(ck))})
    if k == "failed_read":
        g = ck.tmp(".txt")
        common.write_bytes(g, rng.choice(["hello world\nthis is not an alignment\n", "", "\n\n\n", "CLUSTAL W multiple sequence alignment\n\n"]))
        return Job(k, ["read {S} %s" % os.path.join(ck.scratch, "does_not_exist_%d" % rng.randint(0, 10 ** 6)), "read {S} %s" % g, "run {S} 2 5 -1 -1 -1", "free {S}"], [], {})
    if k == "one_record":
        fa = ck.tmp(".fa")
        common.write_bytes(fa, ">only\nACGTACGTAC\n")
        return Job(k, ["read {S} %s" % fa, "run {S} 1 5 -1 -1 -1", "free {S}"], [], {})
    if k in ("arr", "arr_equal"):
        kind, seqs = make_seq_file(ck, rng, equal=(k == "arr_equal"))
        f = ck.tmp(".seqs")
        common.write_bytes(f, "".join(s + "\n" for s in seqs))
        ty = kal.TYPES[rng.choice(kal.ADMISSIBLE[kind])]
        nt = rng.choice([1, 2, 8, 64])
        return Job(k, ["arr %s %d %d -1 -1 -1" % (f, nt, ty)], [], {"kind": kind, "n": len(seqs), "equal_lengths": k == "arr_equal", "threads": nt})
    if k == "churn":
        if rng.random() < 0.4:
            # the application changes the process-wide OpenMP thread setting for its own parallel region
            return Job(k, ["ompset %d" % rng.choice([1, 2, 16, 32])], [], {})
        return Job(k, ["churn %d %d" % (rng.randint(1, 10 ** 6), rng.choice([200, 2000]))], [], {})
    if k in ("rrwf", "rrwf_multi", "big_threads", "reread"):
        long_ = (k == "reread" and rng.random() < 0.6)
        kind, seqs = make_seq_file(ck, rng, n=rng.randint(100, 130) if k == "big_threads" else (rng.randint(2, 6) if long_ else None),
                                   equal=(k == "big_threads" and rng.random() < 0.5), long=long_)
        names = gen.names(rng, len(seqs), "s")
        recs = list(zip(names, seqs))
        lines = []
        if k == "rrwf_multi" and len(recs) >= 4:
            cut = rng.randint(2, len(recs) - 2)
            fa, fb = ck.tmp(".fa"), ck.tmp(".fa")
            common.write_bytes(fa, fmt.write_fasta(recs[:cut]))
            common.write_bytes(fb, fmt.write_fasta(recs[cut:]))
            lines += ["read {S} %s" % fa, "read {S} %s" % fb]
        else:
            fa = ck.tmp(".fa")
            common.write_bytes(fa, fmt.write_fasta(recs))
            lines += ["read {S} %s" % fa]
        ty = kal.TYPES[rng.choice(kal.ADMISSIBLE[kind])]
        nt = rng.choice([1, 3, 8, 64]) if k != "big_threads" else rng.choice([8, 16])
        pen = rng.choice([(-1, -1, -1), (-1, -1, -1), (2, 1, 0.5), (0, 0, 0), (40, 5, 3)])
        lines.append("run {S} %d %d %s %s %s" % (nt, ty, common.fnum(pen[0]), common.fnum(pen[1]), common.fnum(pen[2])))
        lines.append("dump {S}")
        F = rng.choice(["fasta", "msf", "clu"])
        lines.append("write {S} %s {O0}" % F)
        fo = [("{O0}", F)]
        if k == "reread":
            lines += ["free {S}", "read {S} {O0}", "dump {S}"]
        lines.append("free {S}")
        return Job(k, lines, fo, {"kind": kind, "n": len(recs), "threads": nt, "type": ty, "penalties": pen, "format": F})
    if k == "cmp":
        kind, seqs = make_seq_file(ck, rng)
        names = gen.names(rng, len(seqs), "s")
        fa = ck.tmp(".fa")
        common.write_bytes(fa, fmt.write_fasta(list(zip(names, seqs))))
        w = kal.ADMISSIBLE[kind]
        return Job(k, ["read {S} %s" % fa, "run {S} 1 %d -1 -1 -1" % kal.TYPES[rng.choice(w)], "read {T} %s" % fa,
                       "run {T} 4 %d 3 2 1" % kal.TYPES[rng.choice(w)], "cmp {S} {T}", "free {S}", "free {T}"], [], {"kind": kind, "n": len(seqs)})
    # rejected: wrong type for the kind
    kind, seqs = make_seq_file(ck, rng)
    names = gen.names(rng, len(seqs), "s")
    fa = ck.tmp(".fa")
    common.write_bytes(fa, fmt.write_fasta(list(zip(names, seqs))))
    wrong = rng.choice([3, 4]) if kind == "dna" else rng.choice([0, 1, 2])
    return Job("rejected", ["read {S} %s" % fa, "run {S} 2 %d -1 -1 -1" % wrong, "free {S}"], [], {"kind": kind, "wrong_type": wrong})


def instantiate(ck, job, slot, slot2, pslot=0):
    outs = {}
    lines = []
    for ln in job.lines:
        ln = ln.replace("{S}", str(slot)).replace("{T}", str(slot2)).replace("{P}", str(pslot))
        for ph, F in job.files_out:
            if ph in ln:
                if ph not in outs:
                    outs[ph] = ck.tmp("." + F)
                ln = ln.replace(ph, outs[ph])
        lines.append(ln)
    return lines, outs


def digest(records, outs, files_out):
    """history-independent digest of a job: op records without the op counter / slot numbers + written bytes"""
    h = []
    for r in records:
        if r.get("op") in ("preload", "unload"):
            continue
        r = dict(r)
        r.pop("n", None)
        r.pop("slot", None)
        h.append(r)
    for ph, F in files_out:
        p = outs.get(ph)
        if p and os.path.exists(p):
            data = open(p, "rb").read()
            if F == "msf":
                data = mask_msf(data)
            h.append({"file": F, "sha": hashlib.sha1(data).hexdigest(), "len": len(data)})
        else:
            h.append({"file": F, "missing": True})
    return h


def run_history(ck, paths, hidx, env, tier):
    rng = ck.rng.__class__(ck.seed * 217645177 + hidx)
    njobs = rng.randint(5, 25 if tier == "quick" else 60)
    shape = None
    if hidx % 3 == 1:
        shape = (rng.choice(["dna", "protein"]), rng.choice([40, 64, 120, 196, 255, 256, 300]))
        ck.count("histories_of_same_shape_calls")
    jobs = [gen_job(ck, rng, shape) for _ in range(njobs)]
    # interleave: up to 3 jobs alive; each alive job owns two slots
    script = []
    isnoise = []   # per script line: a call that is expected to fail and to leave no trace
    owner = []     # per script line: job index
    outs_all = {}
    alive = []     # (job index, remaining lines)
    free_slots = [(0, 1), (2, 3), (4, 5)] if shape is None or rng.random() < 0.3 else [(0, 1)]   # same-shape histories mostly run call after call
    nxt = 0
    max_alive = 0
    for ji_, j_ in enumerate(jobs):
        for ln in j_.pre:
            script.append(ln.replace("{P}", str(ji_ % 64)))
            owner.append(-2)
            isnoise.append(False)
    while nxt < len(jobs) or alive:
        while nxt < len(jobs) and free_slots and (not alive or rng.random() < 0.6):
            s = free_slots.pop()
            lines, outs = instantiate(ck, jobs[nxt], s[0], s[1], nxt % 64)
            outs_all[nxt] = outs
            alive.append([nxt, lines, s, 0])
            nxt += 1
        max_alive = max(max_alive, len(alive))
        a = rng.choice(alive)
        script.append(a[1].pop(0))
        owner.append(a[0])
        isnoise.append(a[3] in jobs[a[0]].noise)
        a[3] += 1
        if not a[1]:
            alive.remove(a)
            free_slots.append(a[2])
    for ji_, j_ in enumerate(jobs):
        if j_.pre:
            script.append("unload %d" % (ji_ % 64))
            owner.append(-2)
            isnoise.append(False)
    script.append("live")
    owner.append(-1)
    isnoise.append(False)
    r, recs = common.kvdrv(paths, script, env=env, scratch=ck.scratch, timeout=1200, cpu=900)
    ctx = {"history": hidx, "variant": paths["variant"], "env": env, "script": script if len(script) < 120 else script[:120]}
    if ck.proc_violations(r, ctx, allow_rcs=(0,)):
        return
    if len(recs) != len(script):
        ck.violation("history-incomplete", "%d records for %d operations" % (len(recs), len(script)), ctx)
        return
    per_job = {}
    for rec, o, nz in zip(recs, owner, isnoise):
        if nz:
            if rec.get("rc") == 0 and rec.get("op") in ("read", "run"):
                ck.count("expected_failures_that_succeeded")
            else:
                ck.count("failing_calls_executed_inside_histories")
            continue
        per_job.setdefault(o, []).append(rec)
    live = per_job[-1][0]
    ck.count("histories")
    ck.count("jobs", len(jobs))
    if live.get("file_maps_extra", 0) > 0:
        ck.violation("file-mappings-remain-after-free", "%d file-backed mapping(s) more than at process start remain after every object was freed (history of %d jobs: %s)" % (
            live["file_maps_extra"], len(jobs), sorted(set(j.kind for j in jobs))), ctx)
    ck.count("histories_with_mapping_count_checked_at_quiescence")
    ck.cmax("max_simultaneously_live_msa_jobs", max_alive)
    if paths["variant"] in ("rel", "noomp", "clangomp"):
        ck.count("histories_with_allocation_accounting")
        ck.cmax("peak_live_blocks", live["peak"])
        if env.get("KV_ALLOC_SHUFFLE"):
            ck.count("histories_with_the_hostile_allocator")
            ck.count("allocations_served_with_a_recycled_block_of_random_choice", max(0, live.get("pool_hits", 0)))
        ck.count("allocations_observed", live["total"])
        if live["blocks"] != 0:
            ck.violation("live-blocks-after-free:%s" % ",".join(sorted(set(j.kind for j in jobs if j.kind in ("rejected",))) or ["-"]),
                         "%d blocks (%d bytes) allocated by kalign remain after every object was freed (history of %d jobs: %s)" % (
                             live["blocks"], live["bytes"], len(jobs), [j.kind for j in jobs]), ctx)
    # replay every job alone
    for ji, job in enumerate(jobs):
        if job.kind == "churn":
            continue
        lines, outs = instantiate(ck, job, 0, 1)
        lines = [ln.replace("{P}", "0") for ln in job.pre] + [ln for i, ln in enumerate(lines) if i not in job.noise] + (["unload 0"] if job.pre else [])
        r2, recs2 = common.kvdrv(paths, lines, env=env, scratch=ck.scratch, timeout=600, cpu=300)
        c2 = dict(ctx, job=ji, job_kind=job.kind, job_descr=job.descr, solo_script=lines)
        if ck.proc_violations(r2, c2, allow_rcs=(0,)):
            continue
        d_hist = digest(per_job[ji], outs_all[ji], job.files_out)
        d_solo = digest(recs2, outs, job.files_out)
        ck.evaluated((hidx, ji, job.kind))
        ck.count("jobs_compared")
        ck.count("jobs_%s" % job.kind)
        if d_hist != d_solo:
            k = next((i for i in range(min(len(d_hist), len(d_solo))) if d_hist[i] != d_solo[i]), -1)
            a = d_hist[k] if 0 <= k < len(d_hist) else None
            b = d_solo[k] if 0 <= k < len(d_solo) else None
            what = "record %d differs" % k
            if isinstance(a, dict) and isinstance(b, dict):
                diffkeys = [x for x in set(a) | set(b) if a.get(x) != b.get(x)]
                what += " in %s" % diffkeys
            ck.violation("result-depends-on-history:%s" % job.kind,
                         "job %d (%s %s) gives a different result inside history %d than alone: %s" % (ji, job.kind, job.descr, hidx, what), c2)
    if hidx < 2:
        ck.sample({"history": hidx, "jobs": [j.kind for j in jobs], "script_head": script[:12], "live_blocks_at_end": live.get("blocks")})


def run(ck, tier):
    rel = build("rel")
    asan = build("asan")
    sc = getattr(ck, "scale", 1.0)
    nh = int((60 if tier == "quick" else 400) * sc)
    jobs = []
    for i in range(nh):
        if i % 3 == 2:
            jobs.append((asan, i, {}))
        else:
            # mostly without MALLOC_PERTURB_: glibc's perturbation also overwrites freed blocks and so erases exactly the stale data
            # a history leaves behind; a fresh process then sees zero pages where the history sees recycled memory
            pv = [None, None, None, "85", None, "170"][i % 6]
            env = {"MALLOC_PERTURB_": pv} if pv else {}
            if pv is None and i % 2 == 1:
                # hostile allocator (rt/verif_alloc.c): freed blocks come back, chosen at random among the fitting ones, with their old contents
                env["KV_ALLOC_SHUFFLE"] = str(ck.seed * 1000 + i)
            jobs.append((rel, i, env))
    common.pmap(lambda j: run_history(ck, j[0], j[1], j[2], tier), jobs, workers=8)
    ck.rule = ("histories of 5..25 (thorough: ..60) jobs executed by one process with up to three msa-owning jobs interleaved operation by operation: kalign() on arrays (incl. "
               "equal-length sequences), read(1-2 files)->run->dump->write(fmt)->free, write->free->re-read, compare of two runs, rejected calls (type of the other kind, missing / unrecognisable / one-record input), "
               ">= 100 sequences with 8-16 threads, heap-churn jobs that leave patterned garbage in freed blocks, every third history made of same-shape calls (one common sequence length and kind, 2..5 and 100..130 sequences alternating, call after call) so that freed objects are reused at once by the next call (input arrays pre-loaded by the driver), a third of the -O2 histories under a hostile allocator that hands freed blocks back at random with their old contents; thread counts 64 -> 1 -> 8 and DNA <-> protein change from job to "
               "job; -O2 build with allocation accounting (mostly without MALLOC_PERTURB_, which would erase the stale heap contents a history leaves behind) and the ASan build. Each job is replayed alone in a fresh process; digests must "
               "be equal; live blocks after the last free must be 0 and the process must hold no more file-backed mappings than at its start (2 % of the jobs read and free a 17..33 MiB file). Distinct = (history, job).")
    ck.assumptions = ["MSF header line (time stamp, file base name) is masked before comparing written files", "allocations inside libgomp are not counted (the OpenMP runtime's own pool)"]


def replay(ck, doc):
    rp = doc["replay"]
    paths = build(rp.get("variant", "rel"))
    run_history(ck, paths, rp["history"], rp.get("env", {}), doc.get("tier", "quick"))
    with ck.lock:
        ck.nontrivial |= set(range(30))
