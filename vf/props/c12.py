"""C12: duplicate input sequences receive identical rows (inputs of fewer than 100 sequences)."""
import subprocess

from vf import common, fmt, gen, kal
from vf.build import build, build_ref

MIN_NONTRIVIAL = 15

# published 13-class reduction used for guide-tree distances: (L,M) (I,V) (K,R) (E,Q) (A,S,T) (N,D) (F,Y)
_RED = {}
for grp in ("LM", "IV", "KR", "EQ", "AST", "ND", "FY"):
    for c in grp:
        _RED[c] = grp[0]


def reduce_seq(s, kind):
    s = s.upper()
    if kind == "protein":
        return "".join(_RED.get(c, c) for c in s)
    return "".join("T" if c == "U" else (c if c in "ACGT" else "N") for c in s)


def sgdist_batch(reftool, pairs):
    if not pairs:
        return []
    inp = "".join("%s %s\n" % (t, p) for t, p in pairs)
    out = subprocess.run([reftool, "sgdist"], input=inp.encode(), stdout=subprocess.PIPE, check=True).stdout.decode().split()
    return [int(x) for x in out]


def premise_ok(reftool, kind, seqs, dup_indices):
    """no other distinct sequence is contained in / contains a duplicated sequence (class-reduced, semi-global distance >= 1)"""
    red = [reduce_seq(s, kind) for s in seqs]
    dupseqs = set(seqs[i] for i in dup_indices)
    pairs = []
    for S in dupseqs:
        rs = reduce_seq(S, kind)
        for X, rx in zip(seqs, red):
            if X == S:
                continue
            if len(rs) > len(rx):
                pairs.append((rs, rx))
            elif len(rs) < len(rx):
                pairs.append((rx, rs))
            else:
                pairs.append((rs, rx))
                pairs.append((rx, rs))
    d = sgdist_batch(reftool, pairs)
    return all(x >= 1 for x in d), (min(d) if d else None)


def _subst_other_class(rng, c, alpha, kind):
    for _ in range(50):
        x = rng.choice(alpha)
        if reduce_seq(x, kind) != reduce_seq(c, kind):
            return x
    return c


def gen_case_long(rng, reftool):
    """long duplicated sequence plus (a) short near-fragments of it, non-contained, and (b) relatives placed at
    special edit distances (integer-width boundaries 255/256/257/512/1024 and multiples of 64)"""
    kind = rng.choice(["dna", "protein", "rna"])
    alpha = {"dna": gen.DNA, "rna": gen.RNA, "protein": gen.AA}[kind]
    L = rng.choice([300, 521, 700, 991, 1200, 1500, 2400])
    if rng.random() < 0.4:
        unit = gen.rand_seq(rng, rng.randint(2, 9), alpha)
        S = gen.mutate(rng, (unit * (L // len(unit) + 1))[:L], alpha, 0.05, 0.0)
    else:
        S = gen.rand_seq(rng, L, alpha)
    if kind == "protein":
        S = "".join(c if rng.random() < 0.6 else rng.choice(gen.AA_ONLY) for c in S)
    others = []
    mode = rng.choice(["fragments", "special", "both"])
    if mode in ("fragments", "both"):
        for _ in range(rng.randint(2, 6)):
            lb = rng.randint(40, max(41, int(L * 0.7)))
            off = rng.randint(0, L - lb)
            if rng.random() < 0.3:
                lb = max(64, (lb // 64) * 64)   # lengths that are exact multiples of the 64-symbol block
            frag = list(S[off:off + lb])
            for _ in range(rng.randint(1, 9)):
                i = rng.randrange(len(frag))
                frag[i] = _subst_other_class(rng, frag[i], alpha, kind)
            others.append("".join(frag))
        if rng.random() < 0.5 and L >= 521:
            # two long fragments carrying equally long insertions a few positions apart (each copy tends to be joined to one of them)
            k = rng.choice([10, 30])
            pos = rng.randint(L // 3, L // 2)
            la = rng.randint(int(L * 0.6), int(L * 0.8))
            if rng.random() < 0.3:
                la = (la // 64) * 64
            for shift, start in ((0, 0), (rng.choice([2, 4, 6]), L - la)):
                frag = S[start:start + la]
                ip = pos + shift - start
                if 5 < ip < len(frag) - 5:
                    frag = frag[:ip] + gen.rand_seq(rng, k, alpha) + frag[ip:]
                others.append(frag)
    if mode in ("special", "both"):
        pool = rng.choice([[64, 128, 192, 255, 256, 257, 512, 768, 1024], [256, 512], [256], [255, 257, 1024], [128, 64]])
        for _ in range(rng.randint(2, 4)):
            target = rng.choice(pool)
            lb = rng.randint(max(target + 20, int(L * 0.6)), L - 1) if L - 1 > target + 20 else None
            if lb is None:
                continue
            off = rng.randint(0, L - lb)
            x = list(S[off:off + lb])
            # a few indels first, so that aligning the relative with a copy needs internal gaps
            for _ in range(rng.randint(0, 6)):
                i = rng.randrange(1, len(x) - 1)
                if rng.random() < 0.5:
                    del x[i:i + rng.randint(1, 4)]
                else:
                    x[i:i] = [rng.choice(alpha) for _ in range(rng.randint(1, 4))]
            lb = len(x)
            pos = list(range(lb))
            rng.shuffle(pos)
            changed = 0
            want = target
            for it in range(6):
                # apply substitutions until the independent distance hits the target exactly
                need = want - changed
                d = sgdist_batch(reftool, [(reduce_seq(S, kind), reduce_seq("".join(x), kind))])[0]
                if d == target:
                    break
                step = target - d
                if step > 0:
                    for _ in range(step):
                        if not pos:
                            break
                        i = pos.pop()
                        x[i] = _subst_other_class(rng, x[i], alpha, kind)
                else:
                    break
            if sgdist_batch(reftool, [(reduce_seq(S, kind), reduce_seq("".join(x), kind))])[0] == target:
                others.append("".join(x))
    others = [o for o in others if o != S]
    if not others:
        others = [gen.mutate(rng, S, alpha, 0.3, 0.02)]
    mult = rng.randint(2, 3)
    seqs = others + [S] * mult
    rng.shuffle(seqs)
    names = gen.names(rng, len(seqs), "s")
    dup_idx = [i for i, s in enumerate(seqs) if seqs.count(s) > 1]
    return kind, list(zip(names, seqs)), dup_idx


def gen_case_sec(rng):
    """selenoprotein-style inputs: a duplicated protein with cysteines, short fragments of it that spell U (selenocysteine) where it has C - U is
    no member of any published class, so they are not contained in it - and near relatives with indels at different places"""
    L = rng.randint(50, 220)
    S = list(gen.rand_seq(rng, L, gen.AA))
    S = [c if rng.random() < 0.7 else rng.choice(gen.AA_ONLY) for c in S]
    for i in range(L):
        if rng.random() < 0.09:
            S[i] = "C"
    S = "".join(S)
    others = []
    nfrag = rng.randint(2, 4)
    for k in range(nfrag):
        fl = rng.randint(12, max(13, L // nfrag - 2))
        lo = k * (L // nfrag)
        off = rng.randint(lo, max(lo, lo + L // nfrag - fl))
        frag = list(S[off:off + fl])
        if "C" not in frag:
            frag[rng.randrange(len(frag))] = "C"   # then it differs from S at that place as well
        frag = ["U" if c == "C" else c for c in frag]
        others.append("".join(frag))
    for _ in range(rng.randint(2, 5)):
        x = list(S)
        for _ in range(rng.randint(1, 3)):
            i = rng.randrange(2, len(x) - 2)
            if rng.random() < 0.5:
                del x[i:i + rng.randint(1, 3)]
            else:
                x[i:i] = [rng.choice(gen.AA) for _ in range(rng.randint(1, 3))]
        for _ in range(rng.randint(1, 4)):
            i = rng.randrange(len(x))
            x[i] = _subst_other_class(rng, x[i], gen.AA, "protein")
        others.append("".join(x))
    others = [o for o in dict.fromkeys(others) if o != S]
    seqs = others + [S] * rng.randint(2, 3)
    rng.shuffle(seqs)
    names = gen.names(rng, len(seqs), rng.choice(["s", "rand"]))
    dup_idx = [i for i, s_ in enumerate(seqs) if seqs.count(s_) > 1]
    return "protein", list(zip(names, seqs)), dup_idx


PUBLISHED = ["LM", "IV", "KR", "EQ", "AST", "ND", "FY", "C", "G", "H", "P", "W"]


def class_table_check(ck, paths):
    """The premise is evaluated on the published classes. Observe the table kalign really uses for guide-tree distances (create_alphabet(ALPHA_redPROTEIN))
    in the running build: it must not treat as equal a standard amino acid and a letter of another published class / a letter outside the classes
    (B and Z stand for N-or-D and E-or-Q and are shipped in those classes). A coarser table makes kalign see containment the property's premise excludes."""
    r, l = common.kvdrv(paths, ["alphabet 13", "alphabet 5"], scratch=ck.scratch)
    if ck.proc_violations(r, {"stage": "class-table"}, allow_rcs=(0,)):
        return
    tabs = [x for x in l if x.get("op") == "alphabet"]
    if len(tabs) != 2 or len(tabs[0]["to_internal"]) != 128:
        ck.note_inconclusive("class table could not be observed")
        return
    t = tabs[0]["to_internal"]
    pub = {}
    for g in PUBLISHED:
        for c in g:
            pub[c] = g
    pub["B"], pub["Z"] = "ND", "EQ"
    ck.count("class_table_letters_observed", 52)
    for a in "ACDEFGHIKLMNPQRSTVWY":
        for b in "ABCDEFGHIJKLMNOPQRSTUVWXYZ":
            ck.count("class_table_pairs_checked")
            same = t[ord(a)] == t[ord(b)] and t[ord(a)] >= 0
            if same and pub.get(b) != pub[a]:
                ck.violation("premise-classes:kalign-treats-%s-as-%s" % (b, a),
                             "the reduced alphabet used for guide-tree distances gives %s and %s the same code (%d); the published classes keep them apart, so a sequence "
                             "spelling %s where a duplicated sequence has %s counts as contained for kalign although the premise of C12 holds" % (a, b, t[ord(a)], b, a),
                             {"stage": "class-table", "table": {chr(i): t[i] for i in range(65, 91)}})
            if not same and pub.get(b) == pub[a] and b in "ACDEFGHIKLMNPQRSTVWY":
                ck.count("class_table_finer_than_published")
        if t[ord(a)] != t[ord(a.lower())]:
            ck.violation("premise-classes:case-sensitive-codes", "letter %s and %s have different codes in the reduced alphabet" % (a, a.lower()), {"stage": "class-table"})
    d = tabs[1]["to_internal"]
    if len({d[ord(c)] for c in "ACGT"}) != 4 or d[ord("U")] != d[ord("T")]:
        ck.violation("premise-classes:nucleotide-codes", "A,C,G,T must have four codes and U the code of T: %s" % {c: d[ord(c)] for c in "ACGTU"}, {"stage": "class-table"})


def gen_case(rng):
    kind = rng.choice(["dna", "protein", "protein", "rna"])
    alpha = {"dna": gen.DNA, "rna": gen.RNA, "protein": gen.AA}[kind]
    n = rng.randint(2, 70)
    L = rng.randint(8, 250)
    base = gen.family(rng, n, L, alpha, rng.choice(["random", "star", "balanced"]), rng.choice([0.1, 0.25]), rng.choice([0.02, 0.06]), 3)
    if kind == "protein":
        base = [s + "".join(rng.choice(gen.AA_ONLY) for _ in range(len(s) // 3 + 1)) for s in base]
    # distinct base sequences only
    seen = set()
    base = [s for s in base if not (s in seen or seen.add(s))]
    seqs = list(base)
    ndup = rng.randint(1, min(4, len(base)))
    members = rng.sample(range(len(base)), ndup)
    dup_idx = []
    for m in members:
        mult = rng.randint(2, 6)
        for _ in range(mult - 1):
            if len(seqs) >= 99:
                break
            seqs.insert(rng.randint(0, len(seqs)), base[m])
    if rng.random() < 0.3 and kind == "protein" and len(seqs) < 98:
        # near-duplicate differing only inside a similarity class: the premise must exclude it
        s = base[members[0]]
        pos = [i for i, c in enumerate(s) if c in "LIKEANF"]
        if pos:
            i = rng.choice(pos)
            swap = {"L": "M", "I": "V", "K": "R", "E": "Q", "A": "S", "N": "D", "F": "Y"}[s[i]]
            seqs.insert(rng.randint(0, len(seqs)), s[:i] + swap + s[i + 1:])
    seqs = seqs[:99]
    dup_idx = [i for i, s in enumerate(seqs) if seqs.count(s) > 1]
    names = gen.names(rng, len(seqs), rng.choice(["s", "rand", "num"]))
    return kind, list(zip(names, seqs)), dup_idx


def run_case(ck, paths, reftool, idx):
    rng = ck.rng.__class__(ck.seed * 32452843 + idx)
    if idx % 4 == 3:
        kind, recs, dup_idx = gen_case_long(rng, reftool)
        ck.count("inputs_long_duplicate_with_fragments_or_special_distances")
    elif idx % 8 == 5:
        kind, recs, dup_idx = gen_case_sec(rng)
        ck.count("inputs_with_selenocysteine_fragments_of_the_duplicate")
    else:
        kind, recs, dup_idx = gen_case(rng)
    seqs = [s for _, s in recs]
    if not dup_idx:
        ck.count("skipped_no_duplicates")
        return
    ok, mind = premise_ok(reftool, kind, seqs, dup_idx)
    if not ok:
        ck.count("skipped_by_premise")
        return
    word = rng.choice(kal.ADMISSIBLE[kind])
    nt = rng.choice([1, 4, 16])
    ctx = {"kind": kind, "type": word, "idx": idx}
    files = None
    if rng.random() < 0.2:
        # the last record (often a copy) ends the file without a newline
        f_ = ck.tmp(".fa")
        common.write_bytes(f_, fmt.write_fasta(recs, width=rng.choice([60, 1000])).rstrip("\n"))
        files = [f_]
        ck.count("inputs_without_final_newline")
    res, rows = kal.cli_align(ck, paths, recs=recs, files=files, word=word, nthreads=nt, ctx=ctx)
    if rows is None:
        if res.proc.rc == 1:
            ck.violation("rejected-valid-input", res.stderr[-300:], dict(ctx, input=recs))
        return
    errs = fmt.check_alignment(recs, rows, "output")
    if errs:
        ck.violation("output-invalid", errs[0], dict(ctx, input=recs))
        return
    groups = {}
    for (n, s), (_, row) in zip(recs, rows):
        groups.setdefault(s, []).append((n, row))
    worst = None
    for s, g in groups.items():
        if len(g) > 1 and len(set(r for _, r in g)) > 1:
            worst = g
            break
    mults = sorted(len(g) for g in groups.values() if len(g) > 1)
    ck.evaluated((idx, len(recs), tuple(mults), hash(tuple(seqs)) & 0xffffff) if any("-" in r for _, r in rows) else None)
    ck.count("inputs_evaluated")
    ck.count("type_%s" % (word or "undefined"))
    ck.cmax("max_multiplicity", max(mults))
    ck.cmax("max_sequences", len(recs))
    ck.cmin("min_premise_distance", mind)
    if worst:
        a, b = worst[0], next(x for x in worst if x[1] != worst[0][1])
        ck.violation("duplicate-rows-differ",
                     "%d sequences (%s, type %s, %d threads): equal sequences %r and %r have different rows:\n%s\n%s" % (
                         len(recs), kind, word, nt, a[0][:30], b[0][:30], a[1][:150], b[1][:150]), dict(ctx, input=recs, nthreads=nt))
    if idx < 3:
        ck.sample({"kind": kind, "n": len(recs), "multiplicities": mults, "type": word, "min_premise_distance": mind})


def run(ck, tier):
    paths = build("asan")
    reftool = build_ref()["reftool"]
    sc = getattr(ck, "scale", 1.0)
    n = int((300 if tier == "quick" else 4000) * sc)
    class_table_check(ck, paths)
    common.pmap(lambda i: run_case(ck, paths, reftool, i), range(n), workers=12)
    ck.rule = ("the similarity classes kalign uses for guide-tree distances are read from the running build and compared with the published ones the premise is evaluated on; "
               "every eighth case: a duplicated protein with fragments spelling U for C and relatives with indels; (every fourth case: a duplicated sequence of 300..2400 residues with short non-contained near-fragments of it and/or relatives placed at edit distances "
               "64/128/255/256/257/512/768/1024 from it, incl. low-complexity) families of 2..99 sequences with 1..4 duplicated members of multiplicity 2..6 at random positions under distinct names (plus near-duplicates "
               "differing inside a similarity class, which the premise check must exclude); premise checked independently with a semi-global edit distance on "
               "the class-reduced alphabet (ref/reftool.c); all admissible types; threads 1/4/16. Non-trivial = output contains gaps and the premise held.")
    ck.assumptions = ["13-class reduction (L,M)(I,V)(K,R)(E,Q)(A,S,T)(N,D)(F,Y) as published; nucleotides: U=T, ambiguity codes = N", "sequence lengths < 5000"]


def replay(ck, doc):
    paths = build("asan")
    reftool = build_ref()["reftool"]
    if doc["replay"].get("stage") == "class-table":
        class_table_check(ck, paths)
    else:
        run_case(ck, paths, reftool, doc["replay"]["idx"])
    with ck.lock:
        ck.nontrivial |= set(range(30))
