"""C08: identical sequences are aligned without gaps."""
from vf import common, fmt, gen, kal
from vf.build import build

MIN_NONTRIVIAL = 20

LENGTHS = [1, 2, 3, 5, 17, 64, 200, 499, 500, 501, 1030, 2500, 5000]
COPIES = [2, 3, 4, 9, 50, 99, 100, 101, 160, 500]

ALPHAS = {
    "acgt": ("nuc", gen.DNA),
    "acgtn": ("nuc", "ACGTN"),
    "acgtu": ("nuc", "ACGTU"),
    "iupac_real": ("nuc", None),
    "iupac_uniform": ("nuc", "ACGTUNRYSWKMBDHV"),
    "aa20": ("prot", gen.AA),
    "aa_bzx": ("prot", gen.AA + "BZX"),
    "all_n": ("nuc", "N"),
    "all_x": ("prot", "X"),
    "n_rich": ("nuc", None),
    "x_rich": ("prot", None),
    "single": ("any", None),
    "lowcomp_nuc": ("nuc", None),
    "lowcomp_prot": ("prot", None),
}


def make_string(rng, aname, L):
    kind, alpha = ALPHAS[aname]
    if aname == "iupac_real":
        return "".join(rng.choice("RYSWKMBDHVN") if rng.random() < 0.08 else rng.choice("ACGT") for _ in range(L))
    if aname == "n_rich":
        fr = rng.choice([0.55, 0.7, 0.9, 0.97])
        return "".join("N" if rng.random() < fr else rng.choice("ACGT") for _ in range(L))
    if aname == "x_rich":
        fr = rng.choice([0.6, 0.8, 0.95])
        return "".join(rng.choice("XXXXUJO") if rng.random() < fr else rng.choice(gen.AA) for _ in range(L))
    if aname == "single":
        return rng.choice("ACGTNWLKEXB") * L
    if aname == "lowcomp_nuc":
        u = gen.rand_seq(rng, rng.randint(1, 5), gen.DNA)
        return (u * (L // len(u) + 1))[:L]
    if aname == "lowcomp_prot":
        u = gen.rand_seq(rng, rng.randint(1, 5), "DEFHIKLMPQRSVWY")
        return (u * (L // len(u) + 1))[:L]
    s = gen.rand_seq(rng, L, alpha)
    if aname == "aa_bzx" and L >= 8:
        # keep it recognisably protein while carrying B/Z/X
        s = "".join(c if rng.random() < 0.8 else rng.choice("BZX") for c in gen.rand_seq(rng, L, gen.AA))
    return s


def run_case(ck, paths, aname, L, k, nt, idx):
    rng = ck.rng.__class__(ck.seed * 104729 + idx)
    s = make_string(rng, aname, L)
    if rng.random() < 0.2:
        s = gen.random_case(rng, s, 0.5)
    recs = [("c%d" % i, s) for i in range(k)]
    f = ck.tmp(".fa")
    common.write_bytes(f, fmt.write_fasta(recs))
    script = []
    for ty in range(6):
        script += ["read 0 %s" % f, "run 0 %d %d -1 -1 -1" % (nt, ty), "dump 0", "free 0"]
    env = {}
    if L >= 500 and rng.random() < 0.6:
        # the embedding environment enables nested parallelism: the Hirschberg halves then really run on a nested team
        if nt == 1:
            nt = rng.choice([2, 4])
        env = rng.choice([{"OMP_MAX_ACTIVE_LEVELS": "2"}, {"OMP_NESTED": "true"}, {"OMP_MAX_ACTIVE_LEVELS": "3"}])
        ck.count("cases_with_nested_parallelism_enabled")
        script = script * 2   # schedules differ from run to run
    r, lrecs = common.kvdrv(paths, script, env=env, scratch=ck.scratch, timeout=1200, cpu=900)
    ctx = {"alphabet": aname, "string": s if L <= 600 else s[:200] + "...(%d)" % L, "copies": k, "nthreads": nt, "idx": idx, "L": L, "env": env}
    if ck.proc_violations(r, ctx, allow_rcs=(0,)):
        return
    reads = [x for x in lrecs if x.get("op") == "read"]
    runs = [x for x in lrecs if x.get("op") == "run"]
    dumps = [x for x in lrecs if x.get("op") == "dump"]
    nrep = 2 if env else 1
    if len(runs) != 6 * nrep or len(dumps) != 6 * nrep or not reads:
        ck.note_inconclusive("c08: incomplete driver output")
        return
    bt = reads[0]["biotype"]
    kind = {0: "protein", 1: "dna"}.get(bt)
    if kind is None:
        ck.count("skipped_undetected_kind")
        return
    words = {0: "dna", 1: "internal", 2: "rna", 3: "protein", 4: "divergent", 5: None}
    evaluated = False
    for ty_ in range(6 * nrep):
        ty = ty_ % 6
        w = words[ty]
        if w not in kal.ADMISSIBLE[kind]:
            continue
        ck.count("runs")
        ck.count("runs_%s_%s" % (kind, w or "undefined"))
        c2 = dict(ctx, type=w, detected=kind)
        if runs[ty_]["rc"] != 0:
            ck.violation("run-failed:%s:%s" % (kind, w), "kalign_run failed for %d identical %s sequences with admissible type %s" % (k, kind, w), c2)
            continue
        rows = [x["seq"] for x in dumps[ty_]["rows"]]
        evaluated = True
        if len(rows) != k:
            ck.violation("row-count", "%d rows for %d copies" % (len(rows), k), c2)
            continue
        bad = [i for i, row in enumerate(rows) if row != s]
        if bad:
            g = sum(row.count("-") for row in rows)
            ck.violation("gaps-in-identical:%s:%s" % (kind, w or "undefined"),
                         "%d copies of one %s string (length %d, alphabet %s) with type %s, %d threads: row %d is %r... (%d gap characters overall)" % (
                             k, kind, L, aname, w, nt, bad[0], rows[bad[0]][:80], g), c2)
    if evaluated and L * k <= 12000 and idx % 3 == 0:
        # several application threads call kalign() on the identical copies at the same time
        sf = ck.tmp(".seqs")
        common.write_bytes(sf, "".join(s + "\n" for _ in range(k)))
        # (guard-off build: the hook runtime keeps one run context and is not meant for concurrent calls)
        r2, l2 = common.kvdrv(NOHOOK[0], ["parr %s %d %d 5" % (sf, rng.choice([4, 8, 12]), rng.choice([1, 2]))], scratch=ck.scratch, timeout=900, cpu=600)
        c3 = dict(ctx, concurrent_callers=True)
        if not ck.proc_violations(r2, c3, allow_rcs=(0,)):
            pr = next((x for x in l2 if x.get("op") == "parr"), None)
            ck.count("cases_with_concurrent_callers")
            if pr is None or pr["ok"] != pr["callers"] or not pr["same"] or any(row != s for row in pr["rows"]):
                ck.violation("gaps-in-identical:concurrent-callers", "%d threads calling kalign() at the same time on %d identical copies: %s" % (
                    pr["callers"] if pr else -1, k, "calls failed" if pr and pr["ok"] != pr["callers"] else "results differ between callers or contain gaps"), c3)
    if evaluated and L * k <= 30000 and idx % 4 == 1:
        # incremental use of one msa object: align k copies, read more copies of the same string into the aligned object, align again
        f2 = ck.tmp(".fa")
        k2 = rng.randint(1, 4)
        common.write_bytes(f2, fmt.write_fasta([("d%d" % i, s) for i in range(k2)]))
        r3, l3 = common.kvdrv(paths, ["read 0 %s" % f, "run 0 %d 5 -1 -1 -1" % nt, "read 0 %s" % f2, "run 0 %d 5 -1 -1 -1" % nt, "dump 0", "free 0"], scratch=ck.scratch, timeout=900, cpu=600)
        c4 = dict(ctx, incremental=True, added_copies=k2)
        ck.count("cases_with_incremental_realignment")
        if not ck.proc_violations(r3, c4, allow_rcs=(0,)):
            d3 = next((x for x in l3 if x.get("op") == "dump"), None)
            runs3 = [x for x in l3 if x.get("op") == "run"]
            if d3 is None or len(runs3) != 2 or runs3[1]["rc"] != 0 or len(d3["rows"]) != k + k2 or any(x["seq"] != s for x in d3["rows"]):
                ck.violation("gaps-in-identical:after-adding-copies-to-an-aligned-msa", "align %d copies, read %d more copies into the same msa, align again: %s" % (
                    k, k2, "second run failed" if (len(runs3) == 2 and runs3[1]["rc"] != 0) else "rows differ from the input string"), c4)
    if evaluated:
        ck.evaluated((aname, L, k, hash(s) & 0xffffff))
        ck.count("cases_%s" % aname)
        if k >= 100:
            ck.count("cases_copies_ge_100_kmeans_path")
        if L >= 500:
            ck.count("cases_len_ge_500_parallel_hirschberg")
        ck.cmax("max_length", L)
        ck.cmax("max_copies", k)
        ck.cset("thread_counts", nt)
        if idx < 4:
            ck.sample({"alphabet": aname, "length": L, "copies": k, "threads": nt, "detected": kind, "string_prefix": s[:50]})


NOHOOK = [None]


def run(ck, tier):
    paths = build("asan")
    NOHOOK[0] = build("rel", tag="relnohook", guard=False)
    sc = getattr(ck, "scale", 1.0)
    rng = ck.rng
    cases = []
    budget = 120000 if tier == "quick" else 700000
    ncases = int((80 if tier == "quick" else 500) * sc)
    names = list(ALPHAS)
    # systematic part: every alphabet once at a moderate size, every length and every copy count once
    for a in names:
        cases.append((a, rng.choice([17, 64, 200]), rng.choice([2, 3, 4, 9])))
    for a in ("all_n", "all_x", "n_rich", "x_rich"):
        for (L, k) in [(30, 2), (30, 6), (64, 9), (200, 16), (13, 50), (3, 3)]:
            cases.append((a, L, k))
    for L in LENGTHS:
        cases.append((rng.choice(names), L, rng.choice([2, 3, 4]) if L > 1000 else rng.choice([2, 3, 9, 50])))
    for k in COPIES:
        cases.append((rng.choice(names), rng.choice([5, 17, 64]) if k >= 100 else rng.choice([17, 64, 200]), k))
    while len(cases) < ncases:
        a = rng.choice(names)
        L = rng.choice(LENGTHS)
        k = rng.choice(COPIES)
        if L * k > budget:
            continue
        cases.append((a, L, k))
    jobs = [(a, L, k, rng.choice([1, 2, 3, 4, 7, 8, 12, 16]), i) for i, (a, L, k) in enumerate(cases)]
    common.pmap(lambda j: run_case(ck, paths, *j), jobs, workers=12)
    ck.rule = ("k copies of one string (alphabets: ACGT, +N, +U, realistic and uniform IUPAC, 20 amino acids, +B/Z/X, all-N, all-X, N-rich (55..97% N), X-rich (60..95% X/U/J/O), one letter repeated, "
               "low-complexity repeats; lengths 1..5000 incl. 499/500/501; copies 2..500 incl. 99/100/101) aligned with every type admissible for the kind "
               "kalign detects plus 'undefined', default penalties, 1..16 threads, for lengths >= 500 also with nested OpenMP parallelism enabled in the environment; each row must equal the input string. Distinct = (alphabet, length, copies, string).")
    ck.assumptions = ["default penalties only (with user penalties of 0 gapped alignments tie with the diagonal)", "kind as detected by kalign_read_input"]


def replay(ck, doc):
    rp = doc["replay"]
    paths = build("asan")
    NOHOOK[0] = build("rel", tag="relnohook", guard=False)
    run_case(ck, paths, rp["alphabet"], rp["L"], rp["copies"], rp["nthreads"], rp["idx"])
    with ck.lock:
        ck.nontrivial |= set(range(30))
