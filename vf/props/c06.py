"""C06: alignments survive a write/read round trip in every format (kalign agreeing with itself)."""
import os

from vf import alnsrc, common, fmt, gen, kal
from vf.build import build

MIN_NONTRIVIAL = 15
FORMATS = ["fasta", "msf", "clu"]


def aln_of_dump(d):
    """(names, residues, gaps) triple list from a kvdrv dump record"""
    out = []
    for r in d["rows"]:
        res = r["seq"].replace("-", "") if (d["aligned"] == 3 and d["alnlen"] > 0) else r["seq"]
        out.append((r["name"], res, r["gaps"]))
    return out


def describe_diff(a, b):
    if len(a) != len(b):
        return "row-count", "%d rows written, %d rows read back" % (len(a), len(b))
    for i, (x, y) in enumerate(zip(a, b)):
        if x[0] != y[0]:
            return "name", "row %d: name %r read back as %r" % (i, x[0][:60], y[0][:60])
        if x[1] != y[1]:
            return "residues", "row %d (%s): residues differ: %r... vs %r... (lengths %d / %d)" % (i, x[0][:30], x[1][:40], y[1][:40], len(x[1]), len(y[1]))
        if x[2] != y[2]:
            k = next((j for j in range(min(len(x[2]), len(y[2]))) if x[2][j] != y[2][j]), -1)
            return "gaps", "row %d (%s): gap vector differs at position %d (%s vs %s)" % (i, x[0][:30], k, x[2][max(0, k - 2):k + 3], y[2][max(0, k - 2):k + 3])
    return None


def run_case(ck, paths, idx, cls=None):
    rng = ck.rng.__class__(ck.seed * 122949829 + idx)
    nl = None
    if isinstance(cls, tuple):
        cls, nl = cls
    case = alnsrc.gen_alignment_input(rng, cls, nl)
    recs, kind = case["recs"], case["kind"]
    f = ck.tmp(".fa")
    common.write_bytes(f, fmt.write_fasta(recs))
    d = ck.tmpdir()
    # the same directory spelled the way callers join paths: plain, doubled slash (directory given with a trailing slash), "./" components
    sep = rng.choice(["", "", "/", "/.", "/./."])
    if sep:
        d = d + sep
        ck.count("alignments_written_to_paths_spelled_with_%s" % {"/": "double_slash", "/.": "dot_component", "/./.": "two_dot_components"}[sep])
    nt = rng.choice([1, 4])
    script = ["read 0 %s" % f, "run 0 %d 5 -1 -1 -1" % nt, "dump 0"]
    # a write that fails half way (device full) must not change what later writes produce
    failing = rng.choice([None, None, "fasta", "msf", "clu"])
    if failing:
        script.append("write 0 %s /dev/full" % failing)
        ck.count("alignments_with_a_failed_write_first")
    # the target may already exist and be longer than what is written now
    if rng.random() < 0.3:
        for F in FORMATS:
            common.write_bytes("%s/a.%s" % (d, F), (">old_record_%s\n" % F + "ACDEFGHIKLMNPQRSTVWY" * 3 + "\n") * 4000)
        ck.count("alignments_written_over_longer_existing_files")
    for F in FORMATS:
        script.append("write 0 %s %s/a.%s" % (F, d, F))
    hops = [(F, G) for F in FORMATS for G in FORMATS]
    if ck.tier == "quick":
        hops = rng.sample(hops, 4)
    for F in FORMATS:
        script += ["read 1 %s/a.%s" % (d, F), "dump 1"]
        for (F2, G) in hops:
            if F2 != F:
                continue
            script += ["write 1 %s %s/b.%s.%s" % (G, d, F, G), "read 2 %s/b.%s.%s" % (d, F, G), "dump 2", "free 2"]
        script.append("free 1")
    script.append("free 0")
    r, lrecs = common.kvdrv(paths, script, scratch=ck.scratch, timeout=900, cpu=600)
    ctx = {"class": case["cls"], "kind": kind, "idx": idx, "input": recs if len(recs) * max(len(s) for _, s in recs) < 40000 else "(seed-derived)"}
    if ck.proc_violations(r, ctx, allow_rcs=(0,)):
        return
    it = iter(lrecs)

    def nxt(op):
        for x in it:
            if x.get("op") == op:
                return x
        return None

    if (nxt("read") or {}).get("rc") != 0 or (nxt("run") or {}).get("rc") != 0:
        ck.violation("library-rejected-valid-input", "read/run failed", ctx)
        return
    A_d = nxt("dump")
    A = aln_of_dump(A_d)
    if failing:
        w = nxt("write")
        if w is None or w["rc"] == 0:
            ck.violation("write-to-full-device-succeeds:%s" % failing, "kalign_write_msa(%s, /dev/full) reported success" % failing, ctx)
    gapfree = all(sum(g) == 0 for _, _, g in A)
    for F in FORMATS:
        w = nxt("write")
        if w is None or w["rc"] != 0:
            ck.violation("write-failed:%s" % F, "kalign_write_msa(%s) failed on a finished alignment" % F, ctx)
            return
    width = A_d["alnlen"]
    maxname = max(len(n) for n, _, _ in A)
    for F in FORMATS:
        rd = nxt("read")
        dd = nxt("dump")
        ck.count("first_hops")
        ck.count("first_hops_%s" % F)
        c2 = dict(ctx, hop="write %s -> read" % F)
        if rd is None or rd["rc"] != 0 or dd is None or dd.get("null"):
            ck.violation("readback-failed:%s" % F, "kalign_read_input failed on kalign's own %s output" % F, c2)
            # consume this format's second hops
            for (F2, G) in hops:
                if F2 == F:
                    nxt("write"); nxt("read"); nxt("dump"); nxt("free")
            continue
        B = aln_of_dump(dd)
        df = describe_diff(A, B)
        if df:
            ck.violation("roundtrip-differs:%s:%s" % (F, df[0]), "write %s -> read: %s (alignment %d rows x %d columns, longest name %d)" % (F, df[1], len(A), width, maxname), c2)
        for (F2, G) in hops:
            if F2 != F:
                continue
            w = nxt("write")
            rd2 = nxt("read")
            d2 = nxt("dump")
            nxt("free")
            c3 = dict(ctx, hop="write %s -> read -> write %s -> read" % (F, G))
            ck.count("second_hops")
            ck.count("second_hop_%s_to_%s" % (F, G))
            if gapfree:
                # a gap-free file is by design not recognised as an alignment: conversion may be refused, but must not silently lose data
                ck.count("second_hops_gapfree_not_claimed")
                if w and w["rc"] == 0:
                    if rd2 is None or rd2["rc"] != 0 or d2 is None or d2.get("null"):
                        ck.violation("conversion-silently-empties:%s->%s" % (F, G), "kalign_write_msa(%s) reported success for a gap-free %s file but what it wrote cannot be read back" % (G, F), c3)
                    else:
                        df2 = describe_diff(A, aln_of_dump(d2))
                        if df2:
                            ck.violation("conversion-silently-empties:%s->%s" % (F, G), "gap-free %s file converted to %s with exit status OK, but: %s" % (F, G, df2[1]), c3)
                continue
            if w is None or w["rc"] != 0:
                ck.violation("conversion-refused:%s->%s" % (F, G), "kalign_write_msa(%s) refuses an alignment read from kalign's own %s file" % (G, F), c3)
                continue
            if rd2 is None or rd2["rc"] != 0 or d2 is None or d2.get("null"):
                ck.violation("conversion-unreadable:%s->%s" % (F, G), "converted file cannot be read back", c3)
                continue
            df2 = describe_diff(A, aln_of_dump(d2))
            if df2:
                ck.violation("conversion-differs:%s->%s:%s" % (F, G, df2[0]), "%s -> %s: %s" % (F, G, df2[1]), c3)
    ck.evaluated((idx, case["cls"], len(A), width, maxname, hash(tuple(recs)) & 0xffffff) if not gapfree else None)
    ck.count("alignments")
    ck.count("class_%s" % case["cls"])
    wc = "multiple_of_60" if width % 60 == 0 else ("le_60" if width < 60 else "other")
    ck.count("width_%s" % wc)
    ck.count("names_%s" % ("ge_100" if maxname >= 100 else "lt_100"))
    ck.cmax("max_rows", len(A))
    ck.cmax("max_width", width)
    ck.cmax("max_name_length", maxname)
    ck.cset("widths_seen_near_block_edges", width) if width in (59, 60, 61, 119, 120, 121, 180, 240) else None
    if gapfree:
        ck.count("gapfree_alignments")
    if idx < 3:
        ck.sample({"class": case["cls"], "rows": len(A), "width": width, "longest_name": maxname, "first_name": A[0][0][:40]})


def run(ck, tier):
    paths = build("asan")
    ck.tier = tier
    sc = getattr(ck, "scale", 1.0)
    n = int((120 if tier == "quick" else 1500) * sc)
    classes = ["width", "width", "names_long", "names_special", "many_rows", "many_lines", "gapfree", "mixedcase", "bulk"]
    jobs = [(i, None) for i in range(n)]
    # block-format line lengths swept one by one across 245..265 characters (longest name 175..200 with a full 60-column block)
    for rep in range(1 if tier == "quick" else 4):
        jobs += [(900000 + rep * 1000 + nl_, ("line_len_sweep", nl_)) for nl_ in range(175, 201)]
    # every width boundary at least once per run
    common.pmap(lambda j: run_case(ck, paths, j[0], j[1]), jobs, workers=12)
    ck.rule = ("alignments produced by kalign_run from generated families covering widths 1..600 incl. 59/60/61/119/120/121/180, 2..600 rows, outputs crossing 1024/2048 "
               "lines, names of 1..200 characters (longest name 175..200 swept one by one, i.e. block lines of 245..265 characters) over [A-Za-z0-9_.|-] incl. punctuation-only names, prefixes of each other and format words, mixed case, gap-free; each is "
               "written in three formats, read back (msa object compared field by field: names, residues, gaps[]), and converted through all (quick: 4 random) ordered "
               "format pairs. Non-trivial = alignment containing gaps.")
    ck.assumptions = ["names over the property's character set", "second hop of a gap-free alignment is not claimed (a gap-free file is by design not recognised as an alignment) but must not silently lose data"]


def replay(ck, doc):
    paths = build("asan")
    ck.tier = "thorough"
    idx_ = doc["replay"]["idx"]
    run_case(ck, paths, idx_, ("line_len_sweep", idx_ % 1000) if idx_ >= 900000 else None)
    with ck.lock:
        ck.nontrivial |= set(range(30))
