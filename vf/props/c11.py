"""C11: the bit-parallel distance kernels equal the semi-global edit distance."""
import json
import os

from vf import common
from vf.build import build

MIN_NONTRIVIAL = 1000


def _run_drv(ck, paths, args, label, cpu=1200):
    r = common.run_proc([paths["bpmdrv"]] + [str(a) for a in args], timeout=3600, cpu=cpu)
    recs = [json.loads(l) for l in r.out.decode(errors="replace").split("\n") if l.startswith("{")]
    ctx = {"variant": paths["variant"], "args": [str(a) for a in args]}
    if ck.proc_violations(r, ctx, allow_rcs=(0, 1), prefix="%s:" % paths["variant"]):
        return None
    summ = [x for x in recs if x.get("rec") == "summary"]
    if not summ:
        ck.note_inconclusive("no summary from bpmdrv %s" % label)
        return None
    s = summ[0]
    for m in [x for x in recs if x.get("rec") == "mismatch"]:
        key = "%s:%s-differs-from-reference" % (paths["variant"], m["kernel"])
        ck.violation(key, "%s(n=%d,m=%d) returned %d, reference edit distance %d" % (m["kernel"], m["n"], m["m"], m["got"], m["ref"]),
                     {"variant": paths["variant"], "case": {"n": m["n"], "m": m["m"], "t": m["t"], "p": m["p"]}})
    if (s["bad_block"] or s["bad64"] or s["bad256"]) and not [x for x in recs if x.get("rec") == "mismatch"]:
        ck.violation("%s:mismatch-unprinted" % paths["variant"], json.dumps(s), ctx)
    return s


def run(ck, tier):
    variants = [build("asan"), build("noavx")]
    sc = getattr(ck, "scale", 1.0)
    if tier == "quick":
        nrand, chunks, exh = int(2500 * sc), 8, [(2, 7), (3, 5)]
    else:
        nrand, chunks, exh = int(60000 * sc), 16, [(2, 9), (3, 6), (4, 5)]
    jobs = []
    for paths in variants:
        for c in range(chunks):
            jobs.append((paths, ["rand", nrand, ck.seed * 1000 + c], "rand"))
        # concurrent callers (the only user calls the kernel from an omp-for)
        jobs.append((paths, ["rand", nrand * 2, ck.seed * 1000 + 500, 8], "rand-8-threads"))
        for sig, nmax in exh:
            jobs.append((paths, ["exh", sig, nmax], "exh"))
    res = common.pmap(lambda j: (j, _run_drv(ck, j[0], j[1], j[2])), jobs)
    per_blocks = [0] * 20
    for (paths, args, label), s in res:
        if s is None:
            continue
        v = paths["variant"]
        ck.evaluated(n=s["pairs"])
        ck.count("pairs_%s_%s" % (v, label), s["pairs"])
        ck.count("pairs_bpm64_%s" % v, s["n64"])
        ck.count("pairs_bpm256_%s" % v, s["n256"])
        ck.count("pairs_pattern_over_1024_cap", s["capped"])
        ck.count("pairs_with_nonzero_distance", s["dist_nonzero"])
        ck.count("pairs_checked_before_set_broadcast_mask", s.get("before_mask", 0))
        for i, x in enumerate(s["per_blocks"]):
            per_blocks[i] += x
        if label.startswith("rand-"):
            ck.count("pairs_run_by_8_concurrent_callers", s["pairs"])
        if label == "exh":
            ck.cset("exhaustive_subspaces", "%s: sigma=%s n<=%s (%d pairs)" % (v, args[1], args[2], s["pairs"]))
        ck.sample({"variant": v, "args": [str(a) for a in args], "summary": s})
    # distinct non-trivial: pairs with non-zero distance are non-trivial; random cases are distinct with
    # overwhelming probability (independent 64-bit PRNG streams), exhaustive ones are distinct by construction
    nz = ck.cov.get("pairs_with_nonzero_distance", 0)
    with ck.lock:
        ck.nontrivial = set(range(nz))
    ck.cov["pairs_per_block_count"] = {str(i): x for i, x in enumerate(per_blocks) if x}
    ck.cov["kernels"] = ["bpm_block (asan/AVX2 build)", "bpm (64-bit)", "bpm_256 (AVX2)", "bpm_block (build without AVX2)"]
    ck.rule = ("(text, pattern) pairs with n >= m >= 1 over alphabets of 2/3/4/5/13 symbols: exhaustive small spaces plus seeded random pairs "
               "with m around every multiple of 64 up to 1088, 1..70, 1000..1300 and beyond the 1024 cap; patterns are mutated substrings "
               "(substitutions, insertions, deletions), unrelated, or low-complexity. Non-trivial = reference distance > 0; counted by the driver.")
    ck.assumptions = ["reference: plain O(nm) semi-global DP in drv/bpmdrv.c", "gcc -fsanitize=address,undefined builds with and without AVX2"]


def replay(ck, doc):
    rp = doc["replay"]
    paths = build(rp.get("variant", "asan"))
    c = rp["case"]
    f = ck.tmp(".case")
    with open(f, "w") as fh:
        fh.write("%d %d\n%s\n%s\n" % (c["n"], c["m"], " ".join(map(str, c["t"])), " ".join(map(str, c["p"]))))
    s = _run_drv(ck, paths, ["case", f], "case")
    if s:
        ck.evaluated(n=1)
        ck.nontrivial = set(range(1000))
