"""C13: nucleotide and protein inputs are recognised from their residue letters."""
from vf import common, fmt, gen, kal
from vf.build import build

MIN_NONTRIVIAL = 50
NUC6 = "ACGTUN"
PROT_ONLY = "DEFHIKLMPQRSVWY"
COMMON = "ACGTN"
OTHER = "BJOXZ"
BT_PROT, BT_DNA = 0, 1


def compose(rng, total, parts):
    """parts: list of (alphabet, fraction); returns shuffled list of letters with exact counts (largest remainder)"""
    counts = [int(total * f) for _, f in parts]
    while sum(counts) < total:
        counts[rng.randrange(len(counts))] += 1
    letters = []
    for (alpha, _), c in zip(parts, counts):
        letters += [rng.choice(alpha) for _ in range(c)]
    rng.shuffle(letters)
    return letters, counts


def gen_case(rng):
    premise = rng.choice([1, 2, 2])
    n = rng.choice([2, 2, 3, 5, 10, 40, 200]) if rng.random() < 0.9 else rng.randint(2, 200)
    if rng.random() < 0.06:
        n = rng.choice([513, 520, 1030])   # more records than one growth step of the sequence table
    avg = rng.choice([1, 3, 10, 50, 200, 2000]) if n <= 10 else (rng.choice([1, 5, 30, 100]) if n <= 200 else rng.choice([4, 10]))
    longform = rng.random() < 0.06
    if longform:
        # few sequences longer than 2^14 / 2^15 / 2^16 residues
        n = rng.choice([2, 3])
        avg = rng.choice([17000, 33000, 33000, 70000])
    total = max(n, n * avg)
    info = {"premise": premise}
    if premise == 1:
        mode = rng.choice(["mix", "mix", "single", "two", "acgt", "rna"])
        if mode == "single":
            alpha = rng.choice(NUC6)
        elif mode == "two":
            alpha = "".join(rng.sample(NUC6, 2))
        elif mode == "acgt":
            alpha = "ACGT"
        elif mode == "rna":
            alpha = "ACGU"
        else:
            alpha = "".join(rng.sample(NUC6, rng.randint(1, 6)))
        letters = [rng.choice(alpha) for _ in range(total)]
        info["alphabet"] = alpha
        expect = BT_DNA
    else:
        p = rng.choice([0.25, 0.25, 0.26, 0.3, 0.5, 0.75, 1.0]) if rng.random() < 0.8 else rng.uniform(0.25, 1.0)
        rest = 1.0 - p
        w = [rng.random() for _ in range(3)]
        style = rng.choice(["common", "common", "mixed", "u-heavy", "other-heavy"]) if not (longform and rng.random() < 0.6) else "common"
        if style == "common":
            w = [1, 0, 0]
        elif style == "u-heavy":
            w = [rng.random() * 0.5, 1, 0]
        elif style == "other-heavy":
            w = [rng.random() * 0.5, 0, 1]
        sw = sum(w) or 1.0
        fr = [rest * x / sw for x in w]
        parts = [(PROT_ONLY, p), (COMMON, fr[0]), ("U", fr[1]), (OTHER, fr[2])]
        letters, counts = compose(rng, total, parts)
        # make sure the premise really holds after rounding
        while sum(1 for c in letters if c in PROT_ONLY) * 4 < len(letters):
            letters[rng.randrange(len(letters))] = rng.choice(PROT_ONLY)
        info["fractions"] = {"protein_only": sum(1 for c in letters if c in PROT_ONLY) / len(letters),
                             "U": sum(1 for c in letters if c == "U") / len(letters),
                             "other": sum(1 for c in letters if c in OTHER) / len(letters)}
        expect = BT_PROT
    # case
    cm = rng.random()
    if cm < 0.2:
        letters = [c.lower() for c in letters]
    elif cm < 0.4:
        letters = [c.lower() if rng.random() < 0.5 else c for c in letters]
    if premise == 2 and rng.random() < 0.25 and n >= 3 and len(letters) >= 4 * n:
        # all protein-only letters in one record, the others made of the remaining letters; the rich record at a random place (often last)
        rich = [c for c in letters if c.upper() in PROT_ONLY]
        rest = [c for c in letters if c.upper() not in PROT_ONLY]
        if rest and len(rest) >= n - 1:
            cuts = sorted(rng.sample(range(1, len(rest)), n - 2)) if len(rest) > n - 1 and n > 2 else []
            others = ["".join(rest[a:b]) for a, b in zip([0] + cuts, cuts + [len(rest)])]
            others = [o for o in others if o]
            k = rng.choice([len(others), len(others), rng.randint(0, len(others))])
            seqs = others[:k] + ["".join(rich)] + others[k:]
            info["concentrated"] = True
            return expect, seqs, info
    # cut into n non-empty sequences
    cuts = sorted(rng.sample(range(1, len(letters)), n - 1)) if len(letters) > n else list(range(1, n))
    if longform and rng.random() < 0.7:
        # all sequences long (about equal shares)
        cuts = [k * len(letters) // n + rng.randint(-500, 500) for k in range(1, n)]
    seqs = ["".join(letters[a:b]) for a, b in zip([0] + cuts, cuts + [len(letters)])]
    seqs = [s for s in seqs if s]
    if len(seqs) < 2:
        seqs = ["".join(letters[:1]), "".join(letters[1:]) or letters[0]]
    if premise == 2 and (longform or rng.random() < 0.08):
        # the arrangement of the letters is not part of the premises: protein-only letters all at the end / all at the start of every sequence
        arr = rng.choice(["rich_last", "rich_last", "rich_last", "rich_first"])
        key = (lambda c: c.upper() in PROT_ONLY) if arr == "rich_last" else (lambda c: c.upper() not in PROT_ONLY)
        seqs = ["".join(sorted(s_, key=key)) for s_ in seqs]
        info["arrangement"] = arr
    if longform:
        info["longform"] = True
    return expect, seqs, info


def run_case(ck, paths, idx):
    rng = ck.rng.__class__(ck.seed * 160481183 + idx)
    expect, seqs, info = gen_case(rng)
    names = gen.names(rng, len(seqs), rng.choice(["s", "rand", "num"]))
    recs = list(zip(names, seqs))
    presentations = [("plain", fmt.write_fasta(recs))]
    # gapped / padded presentations (the letters are what counts, not the gap characters)
    rate = rng.choice([0.3, 2.0, 8.0, 20.0])
    if sum(len(s) for s in seqs) * (1 + rate) < 400000:
        rows = gen.insert_gaps(rng, seqs, rate, rng.choice(["-", "-", ".", "-."]))
        presentations.append(("gapped_fasta_rate_%g" % rate, fmt.write_fasta(list(zip(names, rows)))))
        short = [n[:20] for n in names]
        if len(set(short)) == len(short) and rng.random() < 0.5:
            presentations.append(("clustal_padded", fmt.write_clustal(list(zip(names, [r.replace(".", "-") for r in rows])), pad=rng.choice([None, 40]))))
    # MSF presentation whose header declares the wrong molecule type: the residues decide, not the label
    short = [n_[:30] for n_ in names]
    if len(set(short)) == len(short) and sum(len(x) for x in seqs) < 60000 and rng.random() < 0.4:
        w = max(len(x) for x in seqs)
        mrows = [(n_, x.ljust(w, "-")) for n_, x in zip(names, seqs)]
        presentations.append(("msf_with_wrong_type_label", fmt.write_msf(mrows, protein=(expect != BT_PROT))))
    # permuted + renamed copy
    perm = list(recs)
    rng.shuffle(perm)
    perm = [("renamed%d" % i, s) for i, (_, s) in enumerate(perm)]
    presentations.append(("permuted_renamed", fmt.write_fasta(perm)))
    script = []
    files = []
    for k, (pname, text) in enumerate(presentations):
        f = ck.tmp(".in")
        common.write_bytes(f, text)
        files.append(f)
        script += ["read 0 %s" % f, "free 0"]
    sf = ck.tmp(".seqs")
    common.write_bytes(sf, "".join(s + "\n" for s in seqs))
    script += ["arr2msa 1 %s" % sf, "free 1"]
    multi = len(seqs) >= 4 and idx % 4 == 0
    if multi:
        # read part 1, then a (larger) file of the other kind, which is refused, then part 2 into the same msa
        cut = len(recs) // 2
        fa_, fc_, fb_ = ck.tmp(".fa"), ck.tmp(".fa"), ck.tmp(".fa")
        common.write_bytes(fa_, fmt.write_fasta(recs[:cut]))
        common.write_bytes(fc_, fmt.write_fasta(recs[cut:]))
        tot = sum(len(s_) for s_ in seqs)
        other = ("".join(rng.choice("ACGT") for _ in range(3 * tot + 50)) if expect == BT_PROT else "".join(rng.choice(PROT_ONLY) for _ in range(3 * tot + 50)))
        common.write_bytes(fb_, fmt.write_fasta([("other1", other[: len(other) // 2]), ("other2", other[len(other) // 2:])]))
        script += ["read 2 %s" % fa_, "read 2 %s" % fb_, "read 2 %s" % fc_, "free 2"]
    r, lrecs = common.kvdrv(paths, script, scratch=ck.scratch)
    ctx = dict(info, idx=idx, expect="protein" if expect == BT_PROT else "nucleotide", input=recs if sum(len(s) for s in seqs) < 5000 else "(seed-derived)")
    if ck.proc_violations(r, ctx, allow_rcs=(0,)):
        return
    reads = [x for x in lrecs if x.get("op") == "read"]
    arr = next((x for x in lrecs if x.get("op") == "arr2msa"), None)
    obs = [(p[0], x) for p, x in zip(presentations, reads)] + ([("kalign_arr_to_msa", arr)] if arr else [])
    if multi and len(reads) >= len(presentations) + 3:
        r1, r2, r3 = reads[len(presentations):len(presentations) + 3]
        ck.count("multi_step_reads_with_a_refused_file_between")
        # the first part alone may be too small to satisfy a premise; the final state (all records of the input) must
        if r3.get("rc") == 0 and r2.get("rc") != 0 and r1.get("rc") == 0:
            obs.append(("two_parts_with_refused_file_between", r3))
        else:
            ck.count("multi_step_not_judged_other_file_was_accepted_or_part_failed")
    ufrac = info.get("fractions", {}).get("U", 0.0)

    def keyfor(where):
        if info["premise"] == 2:
            if ufrac >= 0.16:
                return "premise2:classified-nucleotide:U-fraction>=16%"
            return "premise2:classified-nucleotide:%s" % ("gapped" if "gap" in where or "clustal" in where or "msf" in where else where.split("_rate")[0])
        return "premise1:classified-protein:%s" % ("gapped" if "gap" in where or "clustal" in where or "msf" in where else where.split("_rate")[0])

    for where, x in obs:
        ck.count("observations")
        if x.get("rc") != 0 or x.get("null"):
            ck.violation("rejected:%s" % where.split("_rate")[0], "input satisfying premise %d was rejected when presented as %s" % (info["premise"], where), dict(ctx, presentation=where))
            continue
        if x["biotype"] != expect:
            ck.violation(keyfor(where), "premise %d input (%s) presented as %s: biotype %d, expected %d (%s)" % (
                info["premise"], info.get("fractions") or info.get("alphabet"), where, x["biotype"], expect, ctx["expect"]), dict(ctx, presentation=where))
    bts = set(x["biotype"] for _, x in obs if x.get("rc") == 0 and not x.get("null"))
    if len(bts) > 1 and all(x["biotype"] == expect for w, x in obs if w in ("plain",) and x.get("rc") == 0):
        pass  # already reported above with the presentation in the key
    # CLI acceptance and MSF label on a subset
    if idx % 3 == 0 and sum(len(s) for s in seqs) < 30000:
        for word in ("dna", "protein"):
            res = common.kalign_cli(paths, [files[0]], args=["--type", word, "-f", "msf"], nthreads=1, out=None)
            c2 = dict(ctx, cli_type=word)
            if ck.proc_violations(res.proc, c2):
                continue
            ck.count("cli_runs")
            should_accept = (word == "protein") == (expect == BT_PROT)
            if should_accept and res.rc != 0:
                ck.violation(keyfor("cli") + ":cli-rejects-matching-type", "kalign --type %s rejected a premise-%d input: %s" % (word, info["premise"], res.stderr[-200:]), c2)
            elif not should_accept and res.rc == 0:
                ck.violation(keyfor("cli") + ":cli-accepts-other-kind", "kalign --type %s accepted a premise-%d (%s) input" % (word, info["premise"], ctx["expect"]), c2)
            elif res.rc == 0:
                first = res.out_bytes.decode("latin-1").split("\n")[0]
                want = "!!AA_" if expect == BT_PROT else "!!NA_"
                if not first.startswith(want):
                    ck.violation("msf-label:%s" % ctx["expect"], "MSF output of a %s input starts with %r" % (ctx["expect"], first[:40]), c2)
    ck.evaluated((idx, info["premise"], len(seqs), hash(tuple(seqs)) & 0xffffff))
    ck.count("inputs_premise_%d" % info["premise"])
    if info.get("arrangement"):
        ck.count("inputs_with_protein_only_letters_%s" % info["arrangement"])
    if info.get("longform"):
        ck.count("inputs_with_sequences_over_16384_residues")
    ck.count("presentations", len(presentations))
    if info["premise"] == 2:
        ck.cmin("min_protein_only_fraction", round(info["fractions"]["protein_only"], 4))
        ck.cmax("max_U_fraction", round(ufrac, 4))
    ck.cmax("max_sequences", len(seqs))
    ck.cmax("max_total_residues", sum(len(s) for s in seqs))
    if idx < 4:
        ck.sample({"premise": info["premise"], "info": info, "n": len(seqs), "first": seqs[0][:40], "presentations": [p for p, _ in presentations]})


def run(ck, tier):
    paths = build("asan")
    sc = getattr(ck, "scale", 1.0)
    n = int((400 if tier == "quick" else 8000) * sc)
    common.pmap(lambda i: run_case(ck, paths, i), range(n), workers=14)
    ck.rule = ("compositions drawn to satisfy one premise: (1) arbitrary mixtures / single letters of A,C,G,T,U,N in either case; (2) protein-only letter fraction 0.25..1 with "
               "the remainder from common letters, U and B/J/O/X/Z in all proportions; 2..200 sequences of 1..2000 residues plus 2..3 sequences of 17000..70000 residues, letters shuffled or sorted (protein-only letters all first / all last); each presented as plain FASTA, as a gapped / "
               "padded alignment (0.3..20 gap characters per residue, also Clustal with wide name padding), permuted and renamed, and through kalign_arr_to_msa; observed: "
               "msa->biotype, CLI acceptance of --type dna/protein, MSF label. Every generated input is distinct by (premise, composition, content).")
    ck.assumptions = ["the 15 protein-only letters are DEFHIKLMPQRSVWY (the 20 amino acids minus A,C,G,T,N and U)"]


def replay(ck, doc):
    paths = build("asan")
    run_case(ck, paths, doc["replay"]["idx"])
    with ck.lock:
        ck.nontrivial |= set(range(100))
