"""C14: letter case and RNA/DNA spelling do not influence the alignment."""
from vf import common, fmt, gen, kal
from vf.build import build

MIN_NONTRIVIAL = 15


def gen_case(rng, multi=False):
    kind = rng.choice(["nuc", "nuc", "prot"])
    n = rng.randint(2, 30)
    L = rng.randint(5, 250)
    if kind == "nuc":
        alpha = rng.choice(["ACGT", "ACGU", "ACGTU", "ACGTN"])
        seqs = gen.family(rng, n, L, alpha, "random", 0.15, 0.04, 3)
        if rng.random() < 0.35:
            # equal lengths: the canonical order then hangs on tie-breaking only
            root = gen.rand_seq(rng, L, alpha)
            seqs = [gen.mutate(rng, gen.mutate(rng, root, alpha, 0.1, 0.03, 2), alpha, 0.05, 0.0)[:L].ljust(L, alpha[0]) for _ in range(n)]
        if rng.random() < (0.7 if multi else 0.4):
            iu = rng.choice([0.04, 0.04, 0.07]) if multi else 0.04
            seqs = ["".join(rng.choice("RYSWKMBDHV") if rng.random() < iu else c for c in s) for s in seqs]
    else:
        seqs = gen.family(rng, n, L, gen.AA, "random", 0.2, 0.04, 3)
        seqs = [s + "".join(rng.choice(gen.AA_ONLY) for _ in range(len(s) // 3 + 1)) for s in seqs]
        if rng.random() < 0.5:
            seqs = ["".join(rng.choice("BZX") if rng.random() < 0.05 else c for c in s) for s in seqs]
    if kind == "prot" and rng.random() < 0.08:
        # residues that happen to spell a format keyword (all are amino-acid letters; U = selenocysteine)
        kw = rng.choice(["CLUSTAL", "CLUSTALW", "MSF", "NAME", "CHECK", "MULTIPLE", "PILEUP"])
        i_ = rng.randrange(len(seqs))
        p_ = rng.randint(0, len(seqs[i_]))
        seqs[i_] = seqs[i_][:p_] + kw + seqs[i_][p_:]
    names = gen.names(rng, len(seqs), "s")
    return kind, list(zip(names, seqs))


def respell(rng, kind, recs, multi=False):
    mode = rng.choice(["case", "case", "lower", "tu", "tu+case", "case_by_letter"] if kind == "nuc" else ["case", "case", "lower", "upper-lower-mix", "case_by_letter"])
    if multi and rng.random() < 0.4:
        mode = "case_by_letter"
    if mode == "case_by_letter":
        # the case pattern depends on the letter: e.g. only A/C/G/T/N upper case, everything else lower case
        up = set(rng.choice(["ACGTN", "ACGTUN", "DEFHIKLMPQRSVWY", "RYSWKMBDHV", "AEIOU", "".join(rng.sample("ACDEFGHIKLMNPQRSTVWYU", 6))]))
        out = [(n, "".join(c.upper() if c.upper() in up else c.lower() for c in s)) for n, s in recs]
        if out == recs:
            out = [(n, s.lower()) for n, s in recs]
        return mode, 1.0, out
    rate = rng.choice([0.01, 0.1, 0.5, 1.0])
    out = []
    for n, s in recs:
        t = s
        if "tu" in mode:
            t = "".join(("U" if c == "T" else "T" if c == "U" else c) if rng.random() < rate else c for c in t)
        if mode in ("case", "tu+case", "upper-lower-mix"):
            t = "".join(c.swapcase() if rng.random() < rate else c for c in t)
        if mode == "lower":
            t = t.lower() if rng.random() < 0.7 else t
        out.append((n, t))
    if mode == "lower" and out == recs:
        out = [(n, s.lower()) for n, s in recs]
    return mode, rate, out


def lib_run(ck, paths, recs, ty, nt, ctx, array_api=False, cuts=None):
    if cuts:
        # the records spread over several files that are read into one msa (what the CLI does with several inputs)
        script = []
        for a_, b_ in zip([0] + cuts, cuts + [len(recs)]):
            f = ck.tmp(".fa")
            common.write_bytes(f, fmt.write_fasta(recs[a_:b_]))
            script.append("read 0 %s" % f)
        script += ["run 0 %d %d -1 -1 -1" % (nt, ty), "dump 0", "free 0"]
        r, lrecs = common.kvdrv(paths, script, scratch=ck.scratch)
        if ck.proc_violations(r, dict(ctx, input=recs, cuts=cuts), allow_rcs=(0,)):
            return None
        reads = [x for x in lrecs if x.get("op") == "read"]
        rn = next((x for x in lrecs if x.get("op") == "run"), None)
        d = next((x for x in lrecs if x.get("op") == "dump"), None)
        if len(reads) != len(cuts) + 1 or any(x.get("rc") != 0 for x in reads):
            # kalign refuses to combine files whose kinds it detects differently (a short part with a few IUPAC codes may look like protein on its own)
            return "refused"
        return reads[-1], rn, d
    if array_api:
        # kalign() on arrays: the kind is decided from the raw characters by kalign_arr_to_msa
        sf = ck.tmp(".seqs")
        common.write_bytes(sf, "".join(s + "\n" for _, s in recs))
        r, lrecs = common.kvdrv(paths, ["arr2msa 1 %s" % sf, "free 1", "arr %s %d %d -1 -1 -1" % (sf, nt, ty)], scratch=ck.scratch)
        if ck.proc_violations(r, dict(ctx, input=recs, api="kalign()"), allow_rcs=(0,)):
            return None
        a2 = next((x for x in lrecs if x.get("op") == "arr2msa"), None)
        a = next((x for x in lrecs if x.get("op") == "arr"), None)
        if a2 is None or a is None:
            return None
        rd = {"biotype": a2["biotype"], "rc": a2["rc"]}
        rn = {"rc": a["rc"]}
        d = {"rows": [{"name": n, "seq": row} for (n, _), row in zip(recs, a["rows"])]} if a["rc"] == 0 and len(a["rows"]) == len(recs) else {"rows": []}
        return rd, rn, d
    f = ck.tmp(".fa")
    common.write_bytes(f, fmt.write_fasta(recs))
    r, lrecs = common.kvdrv(paths, kal.lib_script(f, ty, -1, -1, -1, nt, dump=True), scratch=ck.scratch)
    if ck.proc_violations(r, dict(ctx, input=recs), allow_rcs=(0,)):
        return None
    rd = next((x for x in lrecs if x.get("op") == "read"), None)
    rn = next((x for x in lrecs if x.get("op") == "run"), None)
    d = next((x for x in lrecs if x.get("op") == "dump"), None)
    return rd, rn, d


def run_case(ck, paths, idx):
    rng = ck.rng.__class__(ck.seed * 49979687 + idx)
    multi = rng.random() < 0.25
    kind, recs = gen_case(rng, multi)
    mode, rate, recs2 = respell(rng, kind, recs, multi)
    if recs2 == recs:
        ck.count("skipped_identical_respelling")
        return
    nt = rng.choice([1, 4])
    ctx = {"kind": kind, "mode": mode, "rate": rate, "idx": idx}
    # undefined type first to learn the detected kind of both spellings
    arr = rng.random() < 0.3 and not multi
    cuts = None
    if multi and len(recs) >= 2:
        # two or three files; the first one often holds only a small share of the records
        k1 = rng.choice([1, 1, max(1, len(recs) // 4), rng.randint(1, len(recs) - 1)])
        cuts = [k1] + ([rng.randint(k1 + 1, len(recs) - 1)] if len(recs) - k1 >= 2 and rng.random() < 0.4 else [])
        ck.count("pairs_spread_over_several_files")
    if arr:
        ck.count("pairs_through_array_api")
    a = lib_run(ck, paths, recs, 5, nt, ctx, arr, cuts)
    b = lib_run(ck, paths, recs2, 5, nt, ctx, arr, cuts)
    if a is None or b is None:
        return
    if a == "refused" or b == "refused":
        if (a == "refused") != (b == "refused") and "tu" not in mode:
            ck.violation("kind-changes-with-case:multi-file", "changing only the case of residues (%s, rate %g) decides whether %d files holding the records are accepted together" % (
                mode, rate, len(cuts) + 1), dict(ctx, input=recs, respelled=recs2, cuts=cuts))
        else:
            ck.count("skipped_parts_detected_as_different_kinds")
        return
    if a[0]["biotype"] != b[0]["biotype"]:
        letters = "".join(s_ for _, s_ in recs).upper()
        p1 = all(c in "ACGTUN" for c in letters)
        p2 = sum(1 for c in letters if c in gen.AA_ONLY) * 4 >= len(letters)
        if "tu" not in mode:
            # a pure change of case: upper and lower case count alike when the kind is decided, so the kind (and with it the alignment) must not move
            ck.violation("kind-changes-with-case%s" % (":multi-file" if cuts else ":array-api" if arr else ""),
                         "changing only the case of residues (%s, rate %g) changes the detected kind from %d to %d%s" % (
                             mode, rate, a[0]["biotype"], b[0]["biotype"], " (records spread over %d files)" % (len(cuts) + 1) if cuts else ""),
                         dict(ctx, input=recs, respelled=recs2, array_api=arr, cuts=cuts))
        elif p1 or p2:
            # the composition satisfies one of the recognition premises (C13) in every spelling, so the kind must not change with the spelling
            ck.violation("kind-changes-with-spelling:%s%s" % ("nucleotide" if p1 else "protein", ":array-api" if arr else ""),
                         "re-spelling (%s, rate %g) changes the detected kind from %d to %d although the letters satisfy premise %d of C13" % (
                             mode, rate, a[0]["biotype"], b[0]["biotype"], 1 if p1 else 2), dict(ctx, input=recs, respelled=recs2, array_api=arr))
        else:
            ck.count("skipped_kind_differs_between_spellings")
        return
    det = {0: "protein", 1: "dna"}.get(a[0]["biotype"])
    if det is None:
        ck.count("skipped_undetected")
        return
    word = rng.choice(kal.ADMISSIBLE[det])
    if word is not None:
        a = lib_run(ck, paths, recs, kal.TYPES[word], nt, ctx, arr, cuts)
        b = lib_run(ck, paths, recs2, kal.TYPES[word], nt, ctx, arr, cuts)
        if a is None or b is None or a == "refused" or b == "refused":
            return
    ctx2 = dict(ctx, type=word, detected=det, input=recs, respelled=recs2, nthreads=nt, cuts=cuts)
    if a[1]["rc"] != 0 or b[1]["rc"] != 0:
        ck.violation("run-failed", "kalign_run failed for one spelling (rc %s / %s)" % (a[1]["rc"], b[1]["rc"]), ctx2)
        return
    rows1 = [(x["name"], x["seq"]) for x in a[2]["rows"]]
    rows2 = [(x["name"], x["seq"]) for x in b[2]["rows"]]
    e1 = fmt.check_alignment(recs, rows1, "original")
    e2 = fmt.check_alignment(recs2, rows2, "respelled")
    if e1 or e2:
        ck.violation("output-invalid", (e1 + e2)[0], ctx2)
        return
    p1, p2 = fmt.gap_pattern(rows1), fmt.gap_pattern(rows2)
    ck.evaluated((idx, mode, rate, hash(tuple(recs)) & 0xffffff) if any("-" in s for s in p1) else None)
    ck.count("pairs_%s" % det)
    ck.count("mode_%s" % mode)
    ck.count("type_%s" % (word or "undefined"))
    if p1 != p2:
        k = next(i for i in range(len(p1)) if p1[i] != p2[i])
        ck.violation("gap-pattern-differs:%s:%s" % (det, "tu" if "tu" in mode else "case"),
                     "re-spelling (%s, rate %g) of a %s input changes the gap pattern with type %s: row %d\n%s\n%s" % (
                         mode, rate, det, word, k, rows1[k][1][:150], rows2[k][1][:150]), ctx2)
    if idx < 3:
        ck.sample({"kind": det, "mode": mode, "rate": rate, "n": len(recs), "original": recs[0][1][:40], "respelled": recs2[0][1][:40]})


def run(ck, tier):
    paths = build("asan")
    sc = getattr(ck, "scale", 1.0)
    n = int((300 if tier == "quick" else 4000) * sc)
    common.pmap(lambda i: run_case(ck, paths, i), range(n), workers=12)
    ck.rule = ("nucleotide inputs over ACGT/ACGU/ACGTU/ACGTN (+ <= 4% IUPAC codes) and protein inputs (+ B/Z/X) re-spelled by random per-residue case flips "
               "(rates 0.01..1), whole-sequence lower case, case tied to the letter (e.g. only A/C/G/T/N upper case) and random T<->U substitutions; 30% of the pairs go through kalign() on arrays, 25% are spread over two or three files read into one msa; a pure case change must not move the detected kind; a T/U pair is evaluated when kalign detects the same kind for both spellings; "
               "all admissible types; threads 1/4. Oracle: identical gap pattern and letters equal to the re-spelled input. Non-trivial = output contains gaps.")
    ck.assumptions = ["library path (kalign_read_input + kalign_run) through kvdrv"]


def replay(ck, doc):
    paths = build("asan")
    run_case(ck, paths, doc["replay"]["idx"])
    with ck.lock:
        ck.nontrivial |= set(range(30))
