"""C02: same alignment for every thread count and every schedule.

Three monitors:
 1. differential: output bytes across thread counts, repeats with injected delays, CPU affinity masks,
    OpenMP nesting settings, and the builds without OpenMP / with clang+libomp;
 2. ordering: the hook runtime's online checkers (merge-before-child, exactly-once, forward+backward
    finished before meet-up, k-means restarts finished before the reduction) in every guarded run;
 3. race detection: clang ThreadSanitizer build with libomp + Archer.
"""
import os
import re

from vf import common, fmt, gen, kal
from vf.build import build

MIN_NONTRIVIAL = 6
ARCHER = "/usr/lib/llvm-14/lib/libarcher.so"


def gen_input(rng, cls):
    kind = rng.choice(["dna", "protein"])
    alpha = gen.DNA if kind == "dna" else gen.AA
    if cls == "kmeans":
        n, L = rng.choice([100, 101, 130, 200, 300]), rng.randint(20, 60)
        seqs = gen.family(rng, n, L, alpha, "random", 0.2, 0.04, 3)
    elif cls == "kmeans_dups":
        n, L = rng.choice([100, 160, 300, 600]), rng.randint(15, 40)
        base = gen.family(rng, max(3, n // rng.choice([4, 10, 50])), L, alpha, "random", 0.2, 0.03, 3)
        seqs = [rng.choice(base) for _ in range(n)]
    elif cls == "wide":
        n, L = rng.randint(30, 99), rng.randint(30, 120)
        seqs = gen.family(rng, n, L, alpha, rng.choice(["star", "balanced"]), 0.15, 0.03, 3)
    elif cls == "long":
        n, L = rng.randint(3, 8), rng.choice([499, 500, 501, 700, 1100, 1600])
        seqs = gen.family(rng, n, L, alpha, "random", 0.1, 0.01, 8)
    elif cls == "equal_len":
        # all sequences of one length: pair distances of equal-length sequences depend on the argument order, so the matrix cell that
        # is written last decides (UPGMA path, < 100 sequences)
        n, L = rng.randint(30, 99), rng.choice([60, 150, 300])
        root = gen.rand_seq(rng, L, alpha)
        seqs = [gen.mutate(rng, gen.mutate(rng, root, alpha, 0.15, 0.03, 2), alpha, 0.05, 0.0)[:L].ljust(L, alpha[0]) for _ in range(n)]
    elif cls == "ties":
        # low divergence and duplicates: many exactly equal pair distances within one UPGMA cluster of >= 32 sequences
        n, L = rng.randint(32, 99), rng.randint(30, 80)
        base = gen.family(rng, rng.randint(6, 16), L, alpha, "star", 0.03, 0.0, 1)
        seqs = [rng.choice(base) if rng.random() < 0.5 else gen.mutate(rng, rng.choice(base), alpha, 0.02, 0.0) for _ in range(n)]
    elif cls == "many_long":
        # many merges of more than 1024 columns in different subtrees at the same time
        n, L = rng.randint(16, 36), rng.choice([1040, 1100, 1250])
        seqs = gen.family(rng, n, L, alpha, "balanced", 0.08, 0.005, 6)
    elif cls == "mixed":
        n, L = rng.choice([100, 120]), rng.choice([505, 520])
        seqs = gen.family(rng, n, L, alpha, "balanced", 0.1, 0.01, 4)
    else:
        n, L = rng.randint(2, 40), rng.randint(5, 200)
        seqs = gen.family(rng, n, L, alpha, "random", 0.15, 0.04, 3)
    if kind == "protein":
        seqs = [s + "".join(rng.choice(gen.AA_ONLY) for _ in range(len(s) // 3 + 1)) for s in seqs]
    return kind, [("s%d" % i, s) for i, s in enumerate(seqs)]


def one_run(ck, paths, f, word, nt, env, taskset=None, log=True, pen=None):
    out = ck.tmp(".out")
    lg = ck.tmp(".log") if log and paths["guard"] else None
    cmd_prefix = []
    args = kal.type_args(word, *(pen or (None, None, None)))
    cmd = [paths["kalign"], "-q", "-n", str(nt)] + args + ["-o", out, f]
    if taskset:
        cmd = ["taskset", "-c", taskset] + cmd
    e = dict(env or {})
    if lg:
        e["KALIGN_VERIF_LOG"] = lg
        e["KV_ORDER"] = "1"
    r = common.run_proc(cmd, env=e, timeout=900, cpu=600)
    data = open(out, "rb").read() if os.path.exists(out) else None
    recs = common.read_jsonl(lg) if lg and os.path.exists(lg) else []
    for p in (out, lg):
        if p and os.path.exists(p):
            os.unlink(p)
    return r, data, recs


def differential_case(ck, builds, idx, cls, tier):
    rng = ck.rng.__class__(ck.seed * 67867967 + idx)
    kind, recs = gen_input(rng, cls)
    word = rng.choice(kal.ADMISSIBLE[kind])
    f = ck.tmp(".fa")
    common.write_bytes(f, fmt.write_fasta(recs))
    ctx = {"class": cls, "kind": kind, "type": word, "idx": idx, "n": len(recs), "input": recs if len(recs) * len(recs[0][1]) < 30000 else "(seed-derived)"}
    rel = builds["rel"]
    # a third of the inputs with explicit penalties (they must reach every thread's merges, not only thread 0's)
    pen = None
    if rng.random() < 0.35:
        big = 10.0 if (kind == "dna" and word in (None, "rna")) else 1.0
        pen = (rng.choice([3.0, 12.0, 30.0]) * big, rng.choice([0.5, 4.0]) * big, rng.choice([0.0, 0.5, 6.0]) * big)
        ck.count("inputs_with_explicit_penalties")
    ctx["penalties"] = pen
    r, base, lrecs = one_run(ck, rel, f, word, 1, {}, pen=pen)
    if ck.proc_violations(r, dict(ctx, nthreads=1, variant="rel")):
        return
    if r.rc != 0 or base is None:
        ck.violation("rejected-valid-input", r.err.decode(errors="replace")[-300:], ctx)
        return
    rows = fmt.parse_fasta(base)
    errs = fmt.check_alignment(recs, rows, "base")
    if errs:
        ck.violation("base-output-invalid", errs[0], ctx)
        return
    counts = [2, 3, 4, 7, 8, 16, 32, 64]
    if tier == "quick":
        counts = rng.sample(counts, 5)
    reps = 2 if tier == "quick" else 4
    variants = []
    for nt in counts:
        for rep in range(reps):
            env = {"KV_DELAY": rng.choice(["300:200", "600:100", "150:400", "1000:0"]), "VERIF_SEED": str(ck.seed * 1000 + idx * 10 + rep)}
            nest = rng.random()
            if nest < 0.3:
                env["OMP_NESTED"] = "true"
            elif nest < 0.45:
                env["OMP_MAX_ACTIVE_LEVELS"] = "2"
            lim = rng.random()
            if lim < 0.15:
                # the environment grants fewer threads than kalign asks for
                env["OMP_THREAD_LIMIT"] = rng.choice(["2", "3", "5"])
            elif lim < 0.25:
                env["OMP_DYNAMIC"] = "true"
            ts = None
            if tier == "thorough" or rep == 1:
                ts = rng.choice([None, "0", "0,1", "0-15"])
            variants.append(("rel", nt, env, ts))
    variants.append(("noomp", 4, {}, None))
    variants.append(("clangomp", rng.choice([2, 4, 8]), {"KV_DELAY": "300:200", "VERIF_SEED": str(idx)}, None))
    variants.append(("asan", rng.choice([1, 4, 16]), {"KV_DELAY": "300:200", "VERIF_SEED": str(idx + 1)}, None))
    orders = set()
    overlap_dp = overlap_km = 0
    for vname, nt, env, ts in variants:
        if vname not in builds:
            continue
        paths = builds[vname]
        r, data, lr = one_run(ck, paths, f, word, nt, env, taskset=ts, pen=pen)
        c2 = dict(ctx, nthreads=nt, variant=vname, env=env, taskset=ts)
        ck.count("runs")
        ck.count("runs_%s" % vname)
        if ts:
            ck.count("runs_with_affinity_mask_%s" % ts)
        if env.get("OMP_NESTED") or env.get("OMP_MAX_ACTIVE_LEVELS"):
            ck.count("runs_with_nested_parallelism_enabled")
        if env.get("OMP_THREAD_LIMIT") or env.get("OMP_DYNAMIC"):
            ck.count("runs_with_fewer_threads_granted_than_requested")
        ck.cset("thread_counts", nt)
        if ck.proc_violations(r, c2):
            continue
        if r.rc != 0 or data is None:
            ck.violation("run-failed:%s" % vname, "exit %s with %d threads: %s" % (r.rc, nt, r.err.decode(errors="replace")[-200:]), c2)
            continue
        if data != base:
            a, b = fmt.parse_fasta(base), fmt.parse_fasta(data)
            k = next((i for i in range(min(len(a), len(b))) if a[i] != b[i]), -1)
            ck.violation("output-differs:%s:%s" % (vname, cls),
                         "%s build, %d threads (%s)%s: alignment differs from the 1-thread run (first differing row %d)" % (
                             vname, nt, env, " taskset " + ts if ts else "", k), c2)
        for x in lr:
            if x.get("rec") == "run":
                orders.add(tuple(x.get("order", [])))
                overlap_dp += x["dp_overlap"]
                overlap_km += x["km_split_overlap"]
                ck.count("events_observed", x["events"])
                ck.count("merges_observed", x["merges"])
                ck.count("dp_steps_observed", x["dp_steps"])
                ck.count("kmeans_restarts_observed", x["km_splits"])
                ck.count("kmeans_reductions_observed", x["km_reduces"])
                ck.count("delays_injected", x["delays"])
                ck.cmax("max_merges_in_flight", x["max_in_flight"])
                ck.cmax("max_threads_seen_in_hooks", x["threads_seen"])
    ck.count("dp_steps_with_overlapping_forward_backward", overlap_dp)
    ck.count("kmeans_restarts_overlapping", overlap_km)
    ck.cmax("max_distinct_merge_completion_orders_for_one_input", len(orders))
    ck.count("distinct_merge_orders_total", len(orders))
    ck.count("inputs_%s" % cls)
    nontrivial = any("-" in s for _, s in rows)
    ck.evaluated((idx, cls, len(recs), hash(tuple(recs)) & 0xffffff) if nontrivial else None)
    if idx % 7 == 0:
        ck.sample({"class": cls, "kind": kind, "n": len(recs), "L": len(recs[0][1]), "type": word, "variants_run": len(variants), "distinct_merge_orders": len(orders)})


# ------------------------------------------------------------------ ThreadSanitizer

_TS_FRAME = re.compile(r"^\s+#(\d+)\s+(\S+)\s+(\S+?)(?::\d+)?(?::\d+)?\s+\((\S+?)\+0x[0-9a-f]+\)")


def parse_tsan(text):
    """-> list of dicts(kind, stacks[[(func, file, module)]], location_alloc_modules, raw)"""
    reports = []
    for blk in text.split("=================="):
        if "WARNING: ThreadSanitizer" not in blk:
            continue
        m = re.search(r"WARNING: ThreadSanitizer: ([^\(\n]+)", blk)
        kind = m.group(1).strip() if m else "?"
        sections = []
        cur = None
        for ln in blk.split("\n"):
            fm = _TS_FRAME.match(ln)
            if fm:
                if cur is not None:
                    cur["frames"].append((fm.group(2), fm.group(3), os.path.basename(fm.group(4))))
            elif ln.startswith("  ") and ln.strip().endswith(":") and not ln.startswith("    "):
                cur = {"title": ln.strip(), "frames": []}
                sections.append(cur)
        reports.append({"kind": kind, "sections": sections, "raw": blk.strip()[:3000]})
    return reports


def tsan_key(rep):
    """(filtered?, key). Filter: racing location is a heap block allocated inside libomp.so (task descriptor pool)."""
    loc = [s for s in rep["sections"] if s["title"].startswith("Location is")]
    acc = [s for s in rep["sections"] if re.match(r"(Previous )?(atomic )?(read|write) of size", s["title"], re.I)]
    filtered = False
    for s in loc:
        if "heap block" in s["title"]:
            mods = [f[2] for f in s["frames"]]
            # allocation performed by the OpenMP runtime itself (no kalign frame between malloc and libomp)
            first_non_rt = next((m for m in mods if not m.startswith(("kalign", "kvdrv")) or True), None)
            user_idx = next((i for i, f in enumerate(s["frames"]) if "/lib/src/" in f[1] or "/repo/src/" in f[1]), None)
            omp_idx = next((i for i, f in enumerate(s["frames"]) if f[2].startswith("libomp")), None)
            if omp_idx is not None and (user_idx is None or omp_idx < user_idx):
                filtered = True
    funcs = []
    for s in acc[:2]:
        fn = next((f[0] for f in s["frames"] if "/lib/src/" in f[1] or "/repo/src/" in f[1]), None)
        funcs.append(fn or (s["frames"][0][0] if s["frames"] else "?"))
    key = "tsan:%s:%s" % (rep["kind"].replace(" ", "-"), "|".join(sorted(funcs)))
    return filtered, key


def tsan_case(ck, tpaths, idx, cls):
    rng = ck.rng.__class__(ck.seed * 982451653 + idx)
    kind, recs = gen_input(rng, cls)
    word = rng.choice(kal.ADMISSIBLE[kind])
    f = ck.tmp(".fa")
    common.write_bytes(f, fmt.write_fasta(recs))
    nt = rng.choice([2, 4, 8, 16, 40])
    logbase = ck.tmp(".tsan")
    out = ck.tmp(".out")
    env = {"OMP_TOOL_LIBRARIES": ARCHER, "ARCHER_OPTIONS": "verbose=0",
           "TSAN_OPTIONS": "ignore_noninstrumented_modules=1 halt_on_error=0 exitcode=0 log_path=%s report_signal_unsafe=0" % logbase}
    if rng.random() < 0.3:
        env["OMP_NESTED"] = "true"
    cmd = [tpaths["kalign"], "-q", "-n", str(nt)] + kal.type_args(word) + ["-o", out, f]
    r = common.run_proc(cmd, env=env, timeout=1200, cpu=900)
    ctx = {"class": cls, "kind": kind, "type": word, "idx": idx, "nthreads": nt, "variant": "tsan", "env": env,
           "input": recs if len(recs) * len(recs[0][1]) < 30000 else "(seed-derived)"}
    text = ""
    d = os.path.dirname(logbase)
    for fn in os.listdir(d):
        if fn.startswith(os.path.basename(logbase)):
            text += open(os.path.join(d, fn), errors="replace").read()
            os.unlink(os.path.join(d, fn))
    reps = parse_tsan(text + "\n" + r.err.decode(errors="replace"))
    ck.count("tsan_runs")
    ck.cset("tsan_thread_counts", nt)
    ck.count("tsan_reports_raw", len(reps))
    for rep in reps:
        filt, key = tsan_key(rep)
        if filt:
            ck.count("tsan_reports_filtered_runtime_owned_memory")
            continue
        ck.violation(key, rep["raw"][:1500], ctx)
    if r.timed_out or r.cpu_limited or (r.signal is not None):
        ck.proc_violations(r, ctx)
    elif r.rc != 0:
        ck.violation("tsan-run-failed", "exit %s: %s" % (r.rc, r.err.decode(errors="replace")[-300:]), ctx)
    ck.evaluated(("tsan", idx, cls, nt))


def _builds(ck):
    """gcc variants are required; when only the clang variants fail to build (clang 14 crashes on some OpenMP constructs gcc accepts) the gcc
    differential still runs, what it observes counts, and the run as a whole is at best inconclusive because the TSan / libomp stages are missing"""
    from vf.build import BuildError
    builds = {v: build(v) for v in ("rel", "noomp", "asan")}
    tpaths = None
    try:
        builds["clangomp"] = build("clangomp")
        tpaths = build("tsan")
    except BuildError as ex:
        print("C02: clang build of /repo failed, continuing with the gcc builds only: %s" % str(ex)[-600:])
        ck.note_inconclusive("clang variants (libomp differential, ThreadSanitizer) could not be built")
    return builds, tpaths


def run(ck, tier):
    builds, tpaths = _builds(ck)
    if not os.path.exists(ARCHER):
        raise common.Inconclusive("libarcher.so missing")
    sc = getattr(ck, "scale", 1.0)
    classes = ["kmeans", "kmeans_dups", "wide", "long", "mixed", "small", "equal_len", "ties", "many_long"]
    if tier == "quick":
        plan = ["kmeans", "kmeans", "kmeans_dups", "kmeans_dups", "wide", "wide", "long", "long", "long", "mixed", "small", "equal_len", "equal_len", "ties", "ties", "many_long"]
        ntsan = 10
    else:
        plan = [classes[i % 9] for i in range(162)]
        ntsan = 120
    plan = plan * max(1, int(sc)) if sc >= 2 else plan
    jobs = list(enumerate(plan))
    common.pmap(lambda j: differential_case(ck, builds, j[0], j[1], tier), jobs, workers=6)
    tcls = ["kmeans", "kmeans_dups", "wide", "long", "mixed", "equal_len", "many_long", "ties"]
    if tpaths is not None:
        common.pmap(lambda i: tsan_case(ck, tpaths, 5000 + i, tcls[i % 8]), range(int(ntsan * max(1.0, sc))), workers=6)
    ck.rule = ("inputs reaching every parallel region (>= 100 sequences: distance matrix omp-for and k-means restart tasks; duplicates: k-means tie fallback; wide "
               "trees: tree-parallel merges; >= 500 columns: Hirschberg halves as tasks); each is run at 1 thread and then at thread counts from "
               "{2,3,4,7,8,16,32,64} x repeats with seeded injected delays, affinity masks of 1/2/16 cores, nested parallelism on/off and thread limits below the requested count (OMP_THREAD_LIMIT, OMP_DYNAMIC), in the no-OpenMP, "
               "clang/libomp and ASan builds: output bytes must be identical; the hook runtime checks merge and DP ordering online in every guarded run; a "
               "ThreadSanitizer+Archer build runs the same inputs at 2..40 threads. Non-trivial = input whose alignment contains gaps.")
    ck.assumptions = ["TSan reports whose racing location is a heap block allocated inside libomp.so (recycled task descriptors) are discarded (DESIGN 2.1)",
                      "schedules are sampled, not enumerated"]


def replay(ck, doc):
    rp = doc["replay"]
    if rp.get("variant") == "tsan":
        tsan_case(ck, build("tsan"), rp["idx"], rp["class"])
    else:
        builds, _ = _builds(ck)
        differential_case(ck, builds, rp["idx"], rp["class"], doc.get("tier", "quick"))
    with ck.lock:
        ck.nontrivial |= set(range(30))
