"""C07: the DP kernels return the optimum whenever it is certifiably unique.

Planted pairwise alignments are certified by an independent full-matrix interval bound (ref/c07oracle.c,
DESIGN.md 4/C07) under both role assignments; certified cases must come back exactly as planted, also when
each side is a group of 1..3 identical copies (seq-seq, seq-profile, profile-profile kernels)."""
import json
import os
import subprocess

from vf import common, fmt, gen, kal
from vf.build import build, build_ref
from vf.props.c12 import reduce_seq, sgdist_batch

MIN_NONTRIVIAL = 100
GOLD = json.load(open(os.path.join(common.VERIF, "ref", "golden_params.json")))
PA = "ARNDCQEGHILKMFPSTWYV"


def codes(base):
    if base in ("dna", "internal", "rna"):
        return {c: i for i, c in enumerate("ACGT")}, "ACGT"
    return {c: i for i, c in enumerate(PA)}, PA


def plant(rng, L, alpha, ngaps, maxgap, psub, overhang, gapsides, minsep=12, near_end=False):
    core = [rng.choice(alpha) for _ in range(L)]
    cols = []
    gp = []
    if L > 40:
        cand = sorted(rng.sample(range(12, max(13, L - 12)), min(ngaps, max(0, (L - 24) // 14))))
        if minsep < 12 and cand:
            # a second gap close to the first one
            cand = sorted(set(cand + [min(L - 13, cand[0] + minsep)]))
        for p in cand:
            if not gp or p - gp[-1] >= minsep:
                gp.append(p)
    gi = 0
    for idx, ch in enumerate(core):
        if gi < len(gp) and idx == gp[gi]:
            gi += 1
            k = rng.randint(1, maxgap)
            side = rng.choice(gapsides)
            for _ in range(k):
                c2 = rng.choice(alpha)
                cols.append((c2, None) if side == 0 else (None, c2))
        ch2 = ch if rng.random() > psub else rng.choice([c for c in alpha if c != ch])
        cols.append((ch, ch2))
    if near_end and len(cols) > 8:
        # an indel 1..3 matched columns away from an end of the alignment
        k = rng.randint(1, maxgap)
        side = rng.choice(gapsides)
        c = rng.randint(1, 3)
        ins = [((rng.choice(alpha), None) if side == 0 else (None, rng.choice(alpha))) for _ in range(k)]
        if rng.random() < 0.5:
            cols = cols[:-c] + ins + cols[-c:]
        else:
            cols = cols[:c] + ins + cols[c:]
        return cols
    for end in (0, 1):
        k = rng.randint(0, overhang)
        side = rng.choice(gapsides)
        ext = [((rng.choice(alpha), None) if side == 0 else (None, rng.choice(alpha))) for _ in range(k)]
        cols = ext + cols if end == 0 else cols + ext
    return cols


def oracle_spec(cols, flip, par, cmap, ns):
    A = "".join((c[1] if flip else c[0]) or "" for c in cols)
    B = "".join((c[0] if flip else c[1]) or "" for c in cols)
    P = []
    ib = 0
    for c in cols:
        ca, cb = (c[1], c[0]) if flip else c
        if ca and cb:
            ib += 1
            P.append(ib)
        elif ca:
            P.append(0)
        elif cb:
            ib += 1
    spec = "%d %d %g %g %g %d\n" % (len(A), len(B), par["gpo"], par["gpe"], par["tgpe"], ns)
    spec += "\n".join(" ".join("%g" % par["subm"][i][j] for j in range(ns)) for i in range(ns)) + "\n"
    spec += " ".join(str(cmap[c]) for c in A) + "\n" + " ".join(str(cmap[c]) for c in B) + "\n" + " ".join(str(p) for p in P) + "\n"
    return spec


def run_case(ck, paths, tools, idx):
    rng = ck.rng.__class__(ck.seed * 236887691 + idx)
    kind = rng.choice(["dna", "rna", "protein", "divergent", "internal", "flat_u", "gpe_eq_tgpe_u", "user", "zero_tgpe_u"])
    if kind in ("dna", "rna", "protein", "divergent", "internal"):
        base = kind
        par = dict(GOLD[kind])
        word, gpo, gpe, tgpe = kind, None, None, None
    else:
        base = rng.choice(["dna", "protein", "divergent"])
        par = dict(GOLD[base])
        if kind == "zero_tgpe_u":
            # an explicit penalty of exactly 0 where the type's default is not 0 (free terminal overhangs)
            base = rng.choice(["rna", "internal", "protein", "divergent"])
            par = dict(GOLD[base])
            gpo, gpe, tgpe = None, None, 0.0
            par.update(tgpe=0.0)
            word = base
        elif kind == "flat_u":
            g = rng.choice([3.0, 6.0, 10.0]) * (10 if base == "divergent" else 1)
            gpo = gpe = tgpe = g
        elif kind == "gpe_eq_tgpe_u":
            gpo = rng.choice([6.0, 12.0]) * (10 if base == "divergent" else 1)
            gpe = tgpe = rng.choice([1.0, 3.0]) * (10 if base == "divergent" else 1)
        else:
            gpo = rng.choice([4.0, 9.0, 20.0]) * (10 if base == "divergent" else 1)
            gpe = rng.choice([1.0, 2.5, 6.0]) * (10 if base == "divergent" else 1)
            tgpe = rng.choice([0.0, 0.5, 2.0]) * (10 if base == "divergent" else 1)
        if kind != "zero_tgpe_u":
            par.update(gpo=gpo, gpe=gpe, tgpe=tgpe)
        word = base
    cmap, alpha = codes(base)
    Ln = rng.choice([15, 40, 100, 250, 480, 495, 505, 520, 900, 1150])
    focus = rng.random() < 0.3
    near = (not focus) and rng.random() < 0.2
    comp = (not focus) and (not near) and rng.random() < 0.12
    if near:
        cols = plant(rng, rng.choice([30, 45, 100, 505, 530]), alpha, rng.choice([0, 1]), rng.choice([1, 4, 6, 9]), rng.choice([0, 0.05]), 0, rng.choice([[0], [1]]), 12, True)
        ck.count("generated_indel_next_to_an_end")
    elif focus:
        # short gaps close to each other, to be aligned between groups of unequal size (gap penalties are scaled by group size)
        cols = plant(rng, rng.choice([40, 60, 100, 250, 505]), alpha, rng.choice([1, 2, 3]), rng.choice([1, 1, 2]), rng.choice([0, 0.05]),
                     rng.choice([0, 0, 5]), rng.choice([[0], [1]]), rng.choice([3, 3, 3, 4, 6]))
    else:
        cols = plant(rng, Ln, alpha, rng.choice([0, 1, 2, 4]), rng.choice([1, 1, 2, 6, 25]), rng.choice([0, 0.05, 0.15, 0.2]),
                     rng.choice([0, 0, 5, 40, 150]), rng.choice([[0], [1], [0, 1]]), rng.choice([12, 12, 12, 6, 3]))
    if comp:
        # two sequences of exactly equal length whose optimum needs an insertion and an equally long deletion further down
        Lc = rng.choice([60, 120, 160, 505, 700])
        k = rng.randint(1, 6)
        core = [rng.choice(alpha) for _ in range(Lc)]
        p1 = rng.randint(15, Lc // 2 - 10)
        p2 = rng.randint(Lc // 2 + 10, Lc - 15)
        cols = []
        for i_, ch in enumerate(core):
            if i_ == p1:
                cols += [(rng.choice(alpha), None) for _ in range(k)]
            if i_ == p2:
                cols += [(None, rng.choice(alpha)) for _ in range(k)]
            cols.append((ch, ch if rng.random() > 0.03 else rng.choice([c for c in alpha if c != ch])))
        ck.count("generated_equal_length_compensating_indels")
    x = "".join(c[0] for c in cols if c[0])
    y = "".join(c[1] for c in cols if c[1])
    if not x or not y:
        return
    ns = len(alpha)
    specs = oracle_spec(cols, False, par, cmap, ns) + oracle_spec(cols, True, par, cmap, ns)
    o = subprocess.run([tools["c07oracle"]], input=specs.encode(), stdout=subprocess.PIPE).stdout.decode().strip().split("\n")
    ck.count("generated")
    if len(o) != 2 or any(not l.startswith("OK") for l in o):
        ck.count("skipped_invalid_planted")
        return
    margins = [float(l.split()[5]) for l in o]
    margin = min(margins)
    bias = max(len(x), len(y)) / 2000.0 + 1e-3 * (len(x) + len(y))
    if not margin > bias:
        ck.count("skipped_not_certified")
        return
    # premise for groups: neither side contained in the other (class-reduced semi-global distance >= 1), so copies are joined first
    ka = rng.choice([1, 1, 2, 3])
    kb = rng.choice([1, 1, 2, 3])
    if focus:
        ka, kb = rng.choice([(1, 3), (3, 1), (1, 2), (2, 1), (2, 3), (3, 2)])
        ck.count("generated_close_gaps_unequal_groups")
    if ka > 1 or kb > 1:
        bk = "protein" if base in ("protein", "divergent") else "dna"
        rx, ry = reduce_seq(x, bk), reduce_seq(y, bk)
        pairs = [(rx, ry), (ry, rx)] if len(rx) == len(ry) else ([(rx, ry)] if len(rx) > len(ry) else [(ry, rx)])
        if min(sgdist_batch(tools["reftool"], pairs)) < 1:
            ck.count("skipped_group_premise")
            return
    recs = [("x%d" % i, x) for i in range(ka)] + [("y%d" % i, y) for i in range(kb)]
    rng.shuffle(recs)
    nt = rng.choice([1, 4])
    ctx = {"idx": idx, "kind": kind, "base": base, "ka": ka, "kb": kb, "margin": margin, "bias": bias, "lens": [len(x), len(y)], "penalties": [par["gpo"], par["gpe"], par["tgpe"]],
           "planted": ["".join(c[0] or "-" for c in cols), "".join(c[1] or "-" for c in cols)] if len(cols) < 700 else "(seed-derived)"}
    res, rows = kal.cli_align(ck, paths, recs=recs, word=word, gpo=gpo, gpe=gpe, tgpe=tgpe, nthreads=nt, ctx=ctx)
    if rows is None:
        if res.proc.rc == 1:
            ck.violation("rejected-valid-input", res.stderr[-300:], ctx)
        return
    rd = dict(rows)
    if len(set(rd["x%d" % i] for i in range(ka))) > 1 or len(set(rd["y%d" % i] for i in range(kb))) > 1:
        ck.count("skipped_group_rows_differ_C12_territory")
        return
    rx, ry = rd["x0"], rd["y0"]
    keep = [i for i in range(len(rx)) if rx[i] != "-" or ry[i] != "-"]
    got = [(rx[i], ry[i]) for i in keep]
    exp = [(c[0] or "-", c[1] or "-") for c in cols]
    pairing = "seq-seq" if ka == 1 and kb == 1 else ("seq-profile" if ka == 1 or kb == 1 else "profile-profile")
    has_indel = any(c[0] is None or c[1] is None for c in cols)
    ck.evaluated((idx, kind, len(x), len(y), ka, kb))
    ck.count("certified")
    ck.count("certified_%s" % kind)
    ck.count("certified_%s" % pairing)
    if has_indel:
        ck.count("certified_with_indel_or_overhang")
    if near:
        ck.count("certified_indel_next_to_an_end")
    if comp:
        ck.count("certified_equal_length_compensating_indels")
    if focus:
        ck.count("certified_close_gaps_unequal_groups")
    if max(len(x), len(y)) >= 500:
        ck.count("certified_a_side_ge_500")
    if min(len(x), len(y)) >= 500:
        ck.count("certified_shorter_side_ge_500")
    ck.count("margin_bucket_%s" % ("lt2x" if margin < 2 * bias else "lt10x" if margin < 10 * bias else "ge10x"))
    if len(x) + len(y) < 1500:
        with ck.lock:
            ck.__dict__.setdefault("certified_pool", []).append((recs, kal.TYPES[word], gpo, gpe, tgpe, exp, kind))
    if got != exp:
        k = next((i for i in range(min(len(got), len(exp))) if got[i] != exp[i]), min(len(got), len(exp)))
        ck.violation("certified-optimum-not-returned:%s:%s" % (pairing, "ge500" if min(len(x), len(y)) >= 500 else "lt500"),
                     "%s, %s, groups %dx%d, lengths %d/%d, %d threads, margin %.3f > bound %.3f: returned alignment differs from the certified unique optimum at pair-column %d:\nplanted  %s\n         %s\nreturned %s\n         %s" % (
                         kind, pairing, ka, kb, len(x), len(y), nt, margin, bias, k,
                         "".join(e[0] for e in exp[max(0, k - 30):k + 30]), "".join(e[1] for e in exp[max(0, k - 30):k + 30]),
                         "".join(g[0] for g in got[max(0, k - 30):k + 30]), "".join(g[1] for g in got[max(0, k - 30):k + 30])),
                     dict(ctx, input=recs if len(x) + len(y) < 3000 else "(seed-derived)", nthreads=nt))
    if ck.cov.get("certified", 0) <= 3:
        ck.sample({"kind": kind, "pairing": pairing, "lens": [len(x), len(y)], "margin": round(margin, 3), "bound": round(bias, 3), "indel": has_indel})


def multi_call(ck, paths):
    """certified cases of different types aligned one after the other in ONE process (library path): each must still return its optimum"""
    pool = getattr(ck, "certified_pool", [])
    rng = ck.rng.__class__(ck.seed * 7 + 1)
    rng.shuffle(pool)
    batches = [pool[i:i + 6] for i in range(0, min(len(pool), 120), 6)]

    def one(batch):
        script = []
        for k, (recs, ty, gpo, gpe, tgpe, exp, kind) in enumerate(batch):
            f = ck.tmp(".fa")
            common.write_bytes(f, fmt.write_fasta(recs))
            script += ["read %d %s" % (k, f), "run %d %d %d %s %s %s" % (k, rng.choice([1, 4]), ty, common.fnum(gpo if gpo is not None else -1), common.fnum(gpe if gpe is not None else -1),
                                                                     common.fnum(tgpe if tgpe is not None else -1)), "dump %d" % k, "free %d" % k]
        r, lrecs = common.kvdrv(paths, script, scratch=ck.scratch, timeout=900, cpu=600)
        ctx = {"multi_call": True, "kinds": [b[6] for b in batch]}
        if ck.proc_violations(r, ctx, allow_rcs=(0,)):
            return
        dumps = [z for z in lrecs if z.get("op") == "dump"]
        for k, (recs, ty, gpo, gpe, tgpe, exp, kind) in enumerate(batch):
            if k >= len(dumps):
                break
            rd = {z["name"]: z["seq"] for z in dumps[k]["rows"]}
            if "x0" not in rd or "y0" not in rd:
                continue
            rx, ry = rd["x0"], rd["y0"]
            keep = [i for i in range(len(rx)) if rx[i] != "-" or ry[i] != "-"]
            got = [(rx[i], ry[i]) for i in keep]
            ck.count("certified_cases_rerun_in_a_multi_call_process")
            if got != exp:
                ck.violation("certified-optimum-not-returned:after-earlier-calls-in-the-same-process",
                             "call %d of a sequence of kalign_run calls with different types (%s) does not return its certified optimum (it does when run alone)" % (k, [b[6] for b in batch]),
                             dict(ctx, input=recs, call=k))
    common.pmap(one, batches, workers=8)


def concurrent_callers(ck, paths):
    """certified cases (default penalties) aligned by 4..12 application threads calling kalign() at the same time, each with its own arrays: every
    caller must get the certified optimum (guard-off -O2 build: the hook runtime keeps one run context)"""
    pool = [c for c in getattr(ck, "certified_pool", []) if c[2] is None and c[3] is None and c[4] is None]
    rng = ck.rng.__class__(ck.seed * 11 + 5)
    rng.shuffle(pool)

    def one(case):
        recs, ty, _, _, _, exp, kind = case
        sf = ck.tmp(".seqs")
        common.write_bytes(sf, "".join(s_ + "\n" for _, s_ in recs))
        P = rng.choice([4, 8, 12])
        r, l = common.kvdrv(paths, ["parr %s %d %d %d" % (sf, P, rng.choice([1, 1, 2]), ty)] * 3, scratch=ck.scratch, timeout=900, cpu=600)
        ctx = {"concurrent_callers": P, "kind": kind, "input": recs}
        if ck.proc_violations(r, ctx, allow_rcs=(0,)):
            return
        for pr in [z for z in l if z.get("op") == "parr"]:
            ck.count("certified_cases_rerun_by_concurrent_callers")
            names = [n_ for n_, _ in recs]
            if pr["ok"] != pr["callers"] or not pr["same"] or len(pr["rows"]) != len(recs):
                ck.violation("certified-optimum-not-returned:concurrent-callers", "%d threads calling kalign() at the same time on a certified %s case: %s" % (
                    P, kind, "some calls failed" if pr["ok"] != pr["callers"] else "callers got different alignments"), ctx)
                return
            rd = dict(zip(names, pr["rows"]))
            rx, ry = rd["x0"], rd["y0"]
            keep = [i for i in range(len(rx)) if rx[i] != "-" or ry[i] != "-"]
            if [(rx[i], ry[i]) for i in keep] != exp:
                ck.violation("certified-optimum-not-returned:concurrent-callers", "%d threads calling kalign() at the same time on a certified %s case: the alignment returned is not the certified optimum" % (P, kind), ctx)
                return
    common.pmap(one, pool[:40 if ck.tier == "quick" else 300], workers=4)


def run(ck, tier):
    paths = build("asan")
    tools = build_ref()
    sc = getattr(ck, "scale", 1.0)
    n = int((900 if tier == "quick" else 12000) * sc)
    common.pmap(lambda i: run_case(ck, paths, tools, i), range(n), workers=12)
    multi_call(ck, build("rel"))   # glibc malloc: freed objects are reused at once (ASan would quarantine them)
    concurrent_callers(ck, build("rel", tag="relnohook", guard=False))
    if ck.cov.get("certified", 0) < (200 if tier == "quick" else 2000) * min(1.0, sc):
        ck.note_inconclusive("only %d certified cases" % ck.cov.get("certified", 0))
    ck.rule = ("planted pairwise alignments (random core, 0-20% substitutions, indels of 1..25 separated by >= 12 (sometimes only 3 or 6) conserved columns, terminal overhangs 0..150) for all five "
               "types and user penalties (flat gpo=gpe=tgpe, gpe=tgpe, general), lengths 15..1300 clustered around 480..520, each side 1..3 identical copies, 1/4 threads, shuffled "
               "record order; certified cases are re-run several in one process and by 4..12 application threads calling kalign() at the same time. A case is judged only if the independent interval bound certifies the planted alignment as the unique optimum under both role assignments with "
               "margin > len/2000 + 1e-3(n+m); uncertified cases are counted and skipped. Non-trivial = certified case.")
    ck.assumptions = ["reference objective and edge weights as validated in DESIGN.md 4/C07 (ref/c07oracle.c)", "matrices and penalties from ref/golden_params.json (checked against the code by C09)"]


def replay(ck, doc):
    paths = build("asan")
    tools = build_ref()
    if "idx" not in doc["replay"]:
        # multi-call / concurrent-caller stages draw from the pool of certified cases: repeat the tier
        run(ck, doc.get("tier", "quick"))
        return
    run_case(ck, paths, tools, doc["replay"]["idx"])
    with ck.lock:
        ck.nontrivial |= set(range(200))
        ck.cov["certified"] = max(ck.cov.get("certified", 0), 200)
