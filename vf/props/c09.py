"""C09: the scoring parameters used are exactly the ones the caller selected."""
import itertools
import json
import os
import random

from vf import common, fmt, gen
from vf.build import build

GOLD = json.load(open(os.path.join(common.VERIF, "ref", "golden_params.json")))
# type constants
T_DNA, T_INT, T_RNA, T_PROT, T_DIV, T_UNDEF = 0, 1, 2, 3, 4, 5
BT_PROT, BT_DNA, BT_UNDEF = 0, 1, 2
WORDS = {"dna": T_DNA, "internal": T_INT, "rna": T_RNA, "protein": T_PROT, "divergent": T_DIV}
# golden table selected by (biotype, type); None = must be rejected
SELECT = {
    (BT_DNA, T_DNA): "dna", (BT_DNA, T_INT): "internal", (BT_DNA, T_RNA): "rna",
    (BT_DNA, T_PROT): None, (BT_DNA, T_DIV): None, (BT_DNA, T_UNDEF): "rna",
    (BT_PROT, T_DNA): None, (BT_PROT, T_INT): None, (BT_PROT, T_RNA): None,
    (BT_PROT, T_PROT): "protein", (BT_PROT, T_DIV): "divergent", (BT_PROT, T_UNDEF): "protein",
}
OVR = [0.0, 0.5, 3.0, 55.0, 1000.0]


def expected(bt, ty, gpo, gpe, tgpe):
    name = SELECT.get((bt, ty))
    if name is None:
        return None
    g = GOLD[name]
    e = {"gpo": g["gpo"], "gpe": g["gpe"], "tgpe": g["tgpe"], "subm": g["subm"], "table": name}
    if gpo >= 0:
        e["gpo"] = gpo
    if gpe >= 0:
        e["gpe"] = gpe
    if tgpe >= 0:
        e["tgpe"] = tgpe
    return e


def feq(a, b):
    return abs(a - b) <= 1e-4 * max(1.0, abs(a), abs(b))


def cmp_param(rec, exp):
    """returns list of mismatching field names"""
    bad = []
    for k in ("gpo", "gpe", "tgpe"):
        if not feq(rec[k], exp[k]):
            bad.append(k)
    if "subm" in rec:
        for i in range(23):
            for j in range(23):
                if not feq(rec["subm"][i][j], exp["subm"][i][j]):
                    bad.append("subm[%d][%d]" % (i, j))
                    return bad
    return bad


def argset_name(gpo, gpe, tgpe):
    return "+".join(n for n, v in (("gpo", gpo), ("gpe", gpe), ("tgpe", tgpe)) if v >= 0) or "none"


def unit_grid(ck, paths):
    cases = []
    for bt in (BT_DNA, BT_PROT):
        for ty in range(6):
            for gpo in [-1.0] + OVR:
                for gpe in [-1.0] + OVR:
                    for tgpe in [-1.0] + OVR:
                        cases.append((bt, ty, gpo, gpe, tgpe))
    for ty in range(6):
        cases.append((BT_UNDEF, ty, -1.0, -1.0, -1.0))
    # split over processes
    chunks = [cases[i::16] for i in range(16)]

    def work(chunk):
        script = ["param %d %d %s %s %s" % (bt, ty, common.fnum(a), common.fnum(b), common.fnum(c)) for bt, ty, a, b, c in chunk]
        r, recs = common.kvdrv(paths, script, scratch=ck.scratch)
        if ck.proc_violations(r, {"unit_grid_chunk": script[:3]}, allow_rcs=(0,)):
            return
        recs = [x for x in recs if x.get("op") == "param"]
        if len(recs) != len(chunk):
            ck.note_inconclusive("param grid: %d records for %d calls" % (len(recs), len(chunk)))
            return
        for (bt, ty, a, b, c), rec in zip(chunk, recs):
            exp = expected(bt, ty, a, b, c) if bt != BT_UNDEF else None
            ck.evaluated(("unit", bt, ty, a, b, c))
            ck.count("unit_calls")
            ctx = {"level": "unit", "biotype": bt, "type": ty, "gpo": a, "gpe": b, "tgpe": c}
            if exp is None:
                ck.count("unit_expected_rejections")
                if rec["rc"] == 0:
                    ck.violation("unit:accepted-wrong-kind:biotype%d:type%d" % (bt, ty),
                                 "aln_param_init(biotype=%d, type=%d) succeeded; a type of the other kind must be rejected" % (bt, ty), ctx)
                continue
            if rec["rc"] != 0:
                ck.violation("unit:rejected-valid:biotype%d:type%d" % (bt, ty), "aln_param_init(biotype=%d,type=%d) failed" % (bt, ty), ctx)
                continue
            bad = cmp_param(rec, exp)
            if bad:
                fields = ",".join(sorted(set(x.split("[")[0] for x in bad)))
                ck.violation("unit:param-differs:type%d:args=%s:fields=%s" % (ty, argset_name(a, b, c), fields),
                             "aln_param_init(biotype=%d,type=%d,gpo=%g,gpe=%g,tgpe=%g) -> gpo=%g gpe=%g tgpe=%g; expected %s table with overrides: gpo=%g gpe=%g tgpe=%g (%s)" % (
                                 bt, ty, a, b, c, rec["gpo"], rec["gpe"], rec["tgpe"], exp["table"], exp["gpo"], exp["gpe"], exp["tgpe"], bad[0]), ctx)
    common.pmap(work, chunks)
    ck.cov["unit_grid"] = "2 kinds x 6 type constants x (none + 5 values)^3 overrides + undefined biotype: %d calls" % len(cases)
    ck.cov["unit_grid_exhaustive"] = True


def make_inputs(ck, n):
    out = []
    for i in range(n):
        kind = "dna" if i % 2 == 0 else "protein"
        k, seqs = gen.seqset(ck.rng, kind, 3, 10, 20, 120)
        names = gen.names(ck.rng, len(seqs), "s")
        out.append((kind, list(zip(names, seqs))))
    return out


def e2e(ck, paths, tier):
    ninputs = 10 if tier == "quick" else 40
    inputs = make_inputs(ck, ninputs)
    argsets = [(), ("gpo",), ("gpe",), ("tgpe",), ("gpo", "gpe"), ("gpo", "tgpe"), ("gpe", "tgpe"), ("gpo", "gpe", "tgpe")]
    jobs = []
    for idx, (kind, recs) in enumerate(inputs):
        f = ck.tmp(".fa")
        common.write_bytes(f, fmt.write_fasta(recs))
        bt = BT_DNA if kind == "dna" else BT_PROT
        words = list(WORDS) + [None]
        for w in words:
            sets = argsets if (tier == "thorough" or idx < 3) else [(), ck.rng.choice(argsets[1:])]
            for s in sets:
                vals = {k: ck.rng.choice([0.0, 0.5, 3.0, 7.0, 55.0]) for k in s}
                jobs.append((idx, kind, bt, recs, f, w, vals))
    results = {}

    def work(job):
        idx, kind, bt, recs, f, w, vals = job
        groups = []
        if w:
            groups.append(["--type", w])
        for k, v in vals.items():
            groups.append(["--" + k, common.fnum(v)])
        # the order of options on the command line must not matter
        random.Random(hash((idx, w, tuple(sorted(vals.items())))) & 0xffffff).shuffle(groups)
        args = [x for g in groups for x in g]
        if w and args[0] != "--type":
            ck.count("e2e_runs_with_penalty_options_before_type")
        log = ck.tmp(".log")
        out = ck.tmp(".out")
        res = common.kalign_cli(paths, [f], args=args, nthreads=ck.rng.choice([1, 2, 4]), out=out, verif_log=log,
                                env={"KV_PARAM_MATRIX": "1"})
        ctx = {"level": "e2e-cli", "input": recs, "args": args}
        if ck.proc_violations(res.proc, ctx):
            return
        ty = WORDS[w] if w else T_UNDEF
        exp = expected(bt, ty, vals.get("gpo", -1.0), vals.get("gpe", -1.0), vals.get("tgpe", -1.0))
        precs = [x for x in (res.log or []) if x.get("rec") == "param"]
        ck.evaluated(("e2e", idx, w, tuple(sorted(vals.items()))))
        ck.count("e2e_cli_runs")
        ck.count("e2e_word_%s" % (w or "none"))
        an = argset_name(vals.get("gpo", -1), vals.get("gpe", -1), vals.get("tgpe", -1))
        if exp is None:
            ck.count("e2e_expected_rejections")
            if res.rc == 0:
                ck.violation("e2e:accepted-wrong-kind:%s-input:--type-%s" % (kind, w),
                             "kalign --type %s accepted %s input (exit 0); recorded type constant %s" % (w, kind, precs[0]["type"] if precs else "?"), ctx)
            elif not res.stderr.strip():
                ck.violation("e2e:rejection-without-message", "exit %d without error message" % res.rc, ctx)
            return
        if res.rc != 0:
            ck.violation("e2e:rejected-valid:%s-input:--type-%s" % (kind, w), "kalign failed (exit %d): %s" % (res.rc, res.stderr[-300:]), ctx)
            return
        if len(precs) != 1:
            ck.note_inconclusive("e2e: %d param records" % len(precs))
            return
        p = precs[0]
        if p["type"] != ty:
            ck.violation("e2e:word-selects-other-type:%s" % (w or "none"),
                         "--type %s passed type constant %d to the library, the constant of that name is %d" % (w, p["type"], ty), ctx)
            return
        bad = cmp_param(p, exp)
        if bad:
            fields = ",".join(sorted(set(x.split("[")[0] for x in bad)))
            ck.violation("e2e:param-differs:type%d:args=%s:fields=%s" % (ty, an, fields),
                         "%s%s used gpo=%g gpe=%g tgpe=%g; expected %s table with overrides: gpo=%g gpe=%g tgpe=%g (%s)" % (
                             "", " ".join(args), p["gpo"], p["gpe"], p["tgpe"], exp["table"], exp["gpo"], exp["gpe"], exp["tgpe"], bad[0]), ctx)
        results[(idx, w, tuple(sorted(vals.items())))] = res.out_bytes
        # explicit penalties must be the ones used by every thread's merges: same options with 8 threads, same bytes
        if vals and res.out_bytes is not None:
            out8 = ck.tmp(".out8")
            res8 = common.kalign_cli(paths, [f], args=args, nthreads=8, out=out8)
            ck.count("e2e_runs_repeated_with_8_threads")
            if not ck.proc_violations(res8.proc, dict(ctx, nthreads=8)) and res8.out_bytes != res.out_bytes:
                nt1 = "1/2/4"
                ck.violation("e2e:explicit-penalties-depend-on-thread-count:%s" % an,
                             "kalign %s gives different output with 8 threads than with %s threads" % (" ".join(args), nt1), dict(ctx, nthreads=8))

    common.pmap(work, jobs)

    # a sequence of kalign_run calls with different penalties in ONE process: every call must use its own arguments
    def work3(t):
        idx, (kind, recs) = t
        bt = BT_DNA if kind == "dna" else BT_PROT
        ty = T_DNA if kind == "dna" else T_PROT
        f = ck.tmp(".fa")
        common.write_bytes(f, fmt.write_fasta(recs))
        sets = [(-1, -1, -1), (40, 7, 3), (-1, -1, -1), (2, 1, 0), (-1, 9, -1)]
        script = []
        for k, (a, b, c) in enumerate(sets):
            script += ["read %d %s" % (k, f), "run %d %d %d %s %s %s" % (k, 1 + (k % 2) * 3, ty, common.fnum(a), common.fnum(b), common.fnum(c)), "dump %d" % k, "free %d" % k]
        r, lrecs = common.kvdrv(paths, script, scratch=ck.scratch)
        ctx = {"level": "multi-call", "input": recs, "penalty_sets": sets}
        if ck.proc_violations(r, ctx, allow_rcs=(0,)):
            return
        dumps = [x for x in lrecs if x.get("op") == "dump"]
        for k, (a, b, c) in enumerate(sets):
            r1, l1 = common.kvdrv(paths, ["read 0 %s" % f, "run 0 1 %d %s %s %s" % (ty, common.fnum(a), common.fnum(b), common.fnum(c)), "dump 0", "free 0"], scratch=ck.scratch)
            if ck.proc_violations(r1, ctx, allow_rcs=(0,)):
                continue
            d1 = next((x for x in l1 if x.get("op") == "dump"), None)
            ck.evaluated(("multi", idx, k))
            ck.count("multi_call_runs_compared")
            if d1 is None or k >= len(dumps) or [x["seq"] for x in d1["rows"]] != [x["seq"] for x in dumps[k]["rows"]]:
                ck.violation("multi-call:penalties-of-an-earlier-call-used", "call %d of a sequence of kalign_run calls (gpo,gpe,tgpe = %s) differs from the same call alone in a fresh process" % (k, (a, b, c)), ctx)

    common.pmap(work3, list(enumerate(inputs[: (4 if tier == "quick" else 20)])))

    # explicit defaults == implicit defaults, and CLI == library with the corresponding constant
    jobs2 = []
    for idx, (kind, recs) in enumerate(inputs):
        bt = BT_DNA if kind == "dna" else BT_PROT
        for w, ty in WORDS.items():
            name = SELECT[(bt, ty)]
            if name is None:
                continue
            jobs2.append((idx, kind, recs, w, ty, name))

    def work2(job):
        idx, kind, recs, w, ty, name = job
        base = results.get((idx, w, ()))
        if base is None:
            return
        f = ck.tmp(".fa")
        common.write_bytes(f, fmt.write_fasta(recs))
        g = GOLD[name]
        subsets = [("gpo",), ("gpe",), ("tgpe",), ("gpo", "gpe", "tgpe")]
        for s in subsets:
            args = ["--type", w]
            for k in s:
                args += ["--" + k, common.fnum(g[k])]
            out = ck.tmp(".out")
            res = common.kalign_cli(paths, [f], args=args, nthreads=1, out=out)
            ctx = {"level": "explicit-default", "input": recs, "args": args}
            if ck.proc_violations(res.proc, ctx):
                continue
            ck.evaluated(("expl", idx, w, s))
            ck.count("explicit_default_runs")
            if res.rc != 0 or res.out_bytes != base:
                ck.violation("e2e:explicit-default-differs:%s:%s" % (w, "+".join(s)),
                             "kalign --type %s with the type's default %s given explicitly differs from the run without it" % (w, "+".join(s)), ctx)
        # library run with the constant
        out2 = ck.tmp(".lib.fa")
        r, lrecs = common.kvdrv(paths, ["read 0 %s" % f, "run 0 1 %d -1 -1 -1" % ty, "write 0 fasta %s" % out2], scratch=ck.scratch)
        ctx = {"level": "cli-vs-lib", "input": recs, "type": ty}
        if ck.proc_violations(r, ctx, allow_rcs=(0,)):
            return
        ck.evaluated(("lib", idx, w))
        ck.count("cli_vs_library_runs")
        lb = open(out2, "rb").read() if os.path.exists(out2) else None
        if lb != base:
            ck.violation("e2e:cli-differs-from-library:%s" % w, "kalign --type %s output differs from kalign_run(type=%d) output" % (w, ty), ctx)

    # the array entry point kalign(): the penalties the caller passes (0 included) are the ones the run uses, and the result is
    # the one kalign_run gives for the same sequences (named Seq1.. as kalign_arr_to_msa names them), type and penalties
    def work4(job):
        idx, kind, recs, ty, pen = job
        bt = BT_DNA if kind == "dna" else BT_PROT
        exp = expected(bt, ty, *pen)
        if exp is None:
            return
        seqs = [s_ for _, s_ in recs]
        sf = ck.tmp(".seqs")
        common.write_bytes(sf, "".join(s_ + "\n" for s_ in seqs))
        f = ck.tmp(".fa")
        common.write_bytes(f, fmt.write_fasta([("Seq%d" % (i + 1), s_) for i, s_ in enumerate(seqs)]))
        nt = 1 + (idx % 2) * 3
        pa = " ".join(common.fnum(v) for v in pen)
        log = ck.tmp(".log")
        r, lrecs = common.kvdrv(paths, ["arr %s %d %d %s" % (sf, nt, ty, pa), "read 0 %s" % f, "run 0 %d %d %s" % (nt, ty, pa), "dump 0", "free 0"],
                                scratch=ck.scratch, verif_log=log)
        ctx = {"level": "array-entry", "input": recs, "type": ty, "penalties": pen}
        if ck.proc_violations(r, ctx, allow_rcs=(0,)):
            return
        a = next((x for x in lrecs if x.get("op") == "arr"), None)
        d = next((x for x in lrecs if x.get("op") == "dump"), None)
        an = argset_name(*pen)
        ck.evaluated(("arr", idx, ty, pen))
        ck.count("array_entry_runs")
        if any(v == 0 for v in pen):
            ck.count("array_entry_runs_with_an_explicit_zero_penalty")
        if a is None or a["rc"] != 0 or d is None or d.get("null"):
            ck.violation("array-entry:rejected-valid:type%d" % ty, "kalign()/kalign_run failed on an input the other entry points accept", ctx)
            return
        precs = [x for x in (common.read_jsonl(log) if os.path.exists(log) else []) if x.get("rec") == "param"]
        if len(precs) == 2:
            bad = cmp_param(precs[0], exp)
            if bad:
                ck.violation("array-entry:param-differs:type%d:args=%s:fields=%s" % (ty, an, ",".join(sorted(set(x.split("[")[0] for x in bad)))),
                             "kalign(type=%d, gpo=%g, gpe=%g, tgpe=%g) aligned with gpo=%g gpe=%g tgpe=%g; expected %s table with overrides: gpo=%g gpe=%g tgpe=%g" % (
                                 (ty,) + tuple(pen) + (precs[0]["gpo"], precs[0]["gpe"], precs[0]["tgpe"], exp["table"], exp["gpo"], exp["gpe"], exp["tgpe"])), ctx)
                return
        else:
            ck.note_inconclusive("array-entry: %d param records" % len(precs))
        if a["rows"] != [x["seq"] for x in d["rows"]]:
            ck.violation("array-entry:differs-from-kalign_run:args=%s" % an,
                         "kalign(type=%d, gpo=%g, gpe=%g, tgpe=%g) returns a different alignment than kalign_run with the same arguments on the same sequences" % ((ty,) + tuple(pen)), ctx)

    jobs4 = []
    for idx, (kind, recs) in enumerate(inputs):
        tys = [T_DNA, T_UNDEF] if kind == "dna" else [T_PROT, T_DIV, T_UNDEF]
        for ty in tys:
            pens = [(-1.0, -1.0, -1.0), (0.0, -1.0, -1.0), (-1.0, 0.0, -1.0), (-1.0, -1.0, 0.0), (0.0, 0.0, 0.0)]
            pens += [tuple(ck.rng.choice([-1.0, 0.0, 0.5, 3.0, 55.0]) for _ in range(3)) for _ in range(2)]
            if tier == "quick" and idx >= 3:
                pens = [ck.rng.choice(pens[1:5]), pens[-1]]
            for pen in pens:
                jobs4.append((idx, kind, recs, ty, pen))
    common.pmap(work4, jobs4)
    ck.sample({"e2e_example": {"args": ["--type", "dna", "--gpe", "3"], "expected": {"gpo": 8, "gpe": 3, "tgpe": 0, "matrix": "5/-4"}}})


def run(ck, tier):
    paths = build("asan")
    unit_grid(ck, paths)
    e2e(ck, paths, tier)
    ck.rule = ("unit: every (kind, type constant, subset of {gpo,gpe,tgpe}, override value) of the grid through aln_param_init, compared with golden "
               "tables (ref/golden_params.json) overridden exactly by the arguments >= 0; end to end: CLI runs per --type word and option subset with the "
               "parameters actually used read from the kv_param hook record, explicit-default vs default output bytes, CLI vs library output bytes; the array entry point kalign() with explicit (also zero) "
               "penalties: parameters used (hook record) and result equal to kalign_run's. "
               "Distinct = distinct (kind,type,args) tuples / (input,word,args) tuples.")
    ck.assumptions = ["golden tables were transcribed from the shipped aln_param.c and README (dna 5/-4, 8/6/0; internal 8/6/8)",
                      "an unspecified type on nucleotide input uses the RNA table (as shipped)"]
    ck.sample({"unit_example": "param biotype=1(DNA) type=0(dna) gpo=-1 gpe=3 tgpe=-1 -> expect gpo 8 gpe 3 tgpe 0"})


def replay(ck, doc):
    paths = build("asan")
    rp = doc["replay"]
    if rp.get("level") == "unit":
        r, recs = common.kvdrv(paths, ["param %d %d %s %s %s" % (rp["biotype"], rp["type"], common.fnum(rp["gpo"]), common.fnum(rp["gpe"]), common.fnum(rp["tgpe"]))], scratch=ck.scratch)
        print(recs)
    else:
        f = ck.tmp(".fa")
        common.write_bytes(f, fmt.write_fasta([tuple(x) for x in rp["input"]]))
        log = ck.tmp(".log")
        res = common.kalign_cli(paths, [f], args=rp.get("args", []), nthreads=1, out=ck.tmp(".out"), verif_log=log)
        print("rc", res.rc, res.stderr[-500:], res.log)
    unit_grid(ck, paths)
