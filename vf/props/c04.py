"""C04: the result depends only on names and residues, not on how they are presented."""
import os
import re

from vf import common, fmt, gen, kal
from vf.build import build

MIN_NONTRIVIAL = 15


def gen_records(rng):
    kind = rng.choice(["dna", "protein", "rna"])
    alpha = {"dna": gen.DNA, "rna": gen.RNA, "protein": gen.AA}[kind]
    mode = rng.choice(["family", "family", "short_long_names", "equal"])
    n = rng.randint(3, 30)
    if rng.random() < 0.2:
        mode = "family"
        n = rng.randint(51, 120)
    if mode == "short_long_names":
        # padding-dominated Clustal files: very short sequences, long names
        seqs = gen.family(rng, n, rng.randint(3, 12), alpha, "random", 0.2, 0.05, 1)
        names = gen.names(rng, n, "long")
    elif mode == "equal":
        L = rng.randint(8, 120)
        root = gen.rand_seq(rng, L, alpha)
        seqs = [gen.mutate(rng, root, alpha, 0.15, 0.0)[:L].ljust(L, alpha[0]) for _ in range(n)]
        names = gen.names(rng, n, rng.choice(["s", "rand"]))
    else:
        seqs = gen.family(rng, n, rng.randint(10, 250) if n <= 50 else rng.randint(10, 60), alpha, "random", 0.15, 0.04, 3)
        names = gen.names(rng, n, rng.choice(["s", "rand", "num", "long"]) if n <= 50 else "s")
    if kind == "protein":
        seqs = [s + "".join(rng.choice(gen.AA_ONLY) for _ in range(len(s) // 2 + 1)) for s in seqs]
    if rng.random() < 0.2:
        seqs = [gen.random_case(rng, s, 0.3) for s in seqs]
    return kind, list(zip(names, seqs))


def presentations(ck, rng, recs, paths, base_rows, tier):
    """yield (label, files, stdin_bytes|None). All contain the same records in the same order."""
    names = [n for n, _ in recs]
    seqs = [s for _, s in recs]
    out = []

    def f(text, suffix=".in"):
        p = ck.tmp(suffix)
        common.write_bytes(p, text)
        return p

    # aligned FASTA with random gap insertions
    rate = rng.choice([0.05, 0.5, 3.0, 8.0, 20.0])
    sym = rng.choice(["-", ".", "~", "*", "-.", "_", "-~*."])
    rows = gen.insert_gaps(rng, seqs, rate, sym)
    out.append(("aligned_fasta_rate%g_sym%s" % (rate, "mixed" if len(sym) > 1 else sym), [f(fmt.write_fasta(list(zip(names, rows)), width=rng.choice([60, 80, 13])))], None))
    # line widths
    w = rng.choice([1, 2, 7, 59, 61, 100, 5000])
    out.append(("fasta_width_%d" % w, [f(fmt.write_fasta(recs, width=w))], None))
    # blank lines / trailing blanks / CRLF / no final newline
    v = rng.choice(["blank_lines", "trailing_blanks", "crlf", "no_final_newline", "leading_blank_lines"])
    if v == "blank_lines":
        t = fmt.write_fasta(recs, width=30, blank_every=rng.choice([1, 2, 5]))
    elif v == "trailing_blanks":
        t = fmt.write_fasta(recs, width=40, trailing=rng.choice([" ", "   "]))
    elif v == "crlf":
        t = fmt.write_fasta(recs, crlf=True)
    elif v == "no_final_newline":
        t = fmt.write_fasta(recs).rstrip("\n")
    else:
        t = "\n" * rng.choice([1, 2, 4, 5, 6, 10]) + fmt.write_fasta(recs)
    out.append(("fasta_%s" % v, [f(t)], None))
    # many leading blank lines (always)
    kbl = rng.choice([5, 6, 8, 12])
    out.append(("fasta_leading_blank_lines_%d" % kbl, [f("\n" * kbl + fmt.write_fasta(recs))], None))
    # gap characters only in late records: a stray '-' / an unaligned file followed by an aligned one
    late = list(recs)
    k = rng.randrange(len(late) * 2 // 3, len(late))
    nm, sq = late[k]
    pos = rng.randint(0, len(sq))
    late[k] = (nm, sq[:pos] + rng.choice(["-", "--", "."]) + sq[pos:])
    out.append(("fasta_stray_gap_in_late_record", [f(fmt.write_fasta(late))], None))
    if len(recs) >= 4:
        cut = rng.randint(2, len(recs) - 2)
        tail_rows = gen.insert_gaps(rng, seqs[cut:], 0.3, "-")
        out.append(("split_plain_then_aligned", [f(fmt.write_fasta(recs[:cut])), f(fmt.write_fasta(list(zip(names[cut:], tail_rows))))], None))
    # Clustal
    crate = rng.choice([0.1, 1.0, 6.0])
    crows = gen.insert_gaps(rng, seqs, crate, "-")
    hdr = rng.choice(["CLUSTAL W (1.83) multiple sequence alignment", "CLUSTAL O(1.2.4) multiple sequence alignment", "CLUSTAL W multiple sequence alignment",
                      "Kalign (3.4.1) multiple sequence alignment"])
    maxn = max(len(n) for n in names)
    out.append(("clustal_rate%g_%s" % (crate, hdr.split()[0] + hdr.split()[1][:1]),
                [f(fmt.write_clustal(list(zip(names, crows)), width=rng.choice([20, 50, 60, 120]), header=hdr, pad=maxn + rng.randint(1, 40),
                                     consensus=rng.random() < 0.4, counts=rng.random() < 0.3, crlf=rng.random() < 0.1))], None))
    # MSF
    mrows = gen.insert_gaps(rng, seqs, rng.choice([0.1, 1.0, 6.0]), "-")
    out.append(("msf_gap%s" % rng.choice([".", "~"]),
                [f(fmt.write_msf(list(zip(names, mrows)), protein=True, width=rng.choice([50, 60, 30]), group=rng.choice([10, 0]), gap=rng.choice([".", "~"])))], None))
    # unwrapped block formats with very long lines (mostly-gap alignment, one block)
    maxlen = max(len(x) for x in seqs)
    if maxlen * len(seqs) < 4000:
        wide_rate = max(2.0, 9500.0 / maxlen)
        wrows = gen.insert_gaps(rng, seqs, wide_rate, "-")
        W = len(wrows[0])
        if rng.random() < 0.5:
            out.append(("clustal_unwrapped_%dcols" % W, [f(fmt.write_clustal(list(zip(names, wrows)), width=W))], None))
        else:
            out.append(("msf_unwrapped_%dcols" % W, [f(fmt.write_msf(list(zip(names, wrows)), protein=True, width=W, group=0))], None))
    # multi-file splits
    n = len(recs)
    k = rng.randint(2, min(5, n))
    cuts = sorted(rng.sample(range(1, n), k - 1))
    parts = [recs[a:b] for a, b in zip([0] + cuts, cuts + [n])]
    out.append(("split_%d_files" % k, [f(fmt.write_fasta(p)) for p in parts], None))
    # one-record first part
    out.append(("split_first_part_one_record", [f(fmt.write_fasta(recs[:1])), f(fmt.write_fasta(recs[1:]))], None))
    # every part a single record carrying gap characters (and: a gapped record on stdin plus a bare file)
    if n <= 12:
        grow = gen.insert_gaps(rng, seqs, 0.4, "-")
        out.append(("split_every_record_its_own_gapped_file", [f(fmt.write_fasta([(nm, r)])) for nm, r in zip(names, grow)], None))
    g0 = gen.insert_gaps(rng, seqs[:1], 0.5, "-")[0]
    if "-" not in g0:
        g0 = g0[:1] + "--" + g0[1:]
    out.append(("gapped_record_on_stdin_plus_bare_file", [f(fmt.write_fasta(recs[1:]))], fmt.write_fasta([(names[0], g0)]).encode()))
    # one-record last part
    out.append(("split_last_part_one_record", [f(fmt.write_fasta(recs[:-1])), f(fmt.write_fasta(recs[-1:]))], None))
    # empty part in the middle / at the end
    pos = rng.choice(["middle", "end", "start"])
    a, b = recs[:n // 2], recs[n // 2:]
    e = f("")
    files = {"middle": [f(fmt.write_fasta(a)), e, f(fmt.write_fasta(b))], "end": [f(fmt.write_fasta(a)), f(fmt.write_fasta(b)), e],
             "start": [e, f(fmt.write_fasta(a)), f(fmt.write_fasta(b))]}[pos]
    out.append(("split_with_empty_part_%s" % pos, files, None))
    # first part on stdin (the CLI reads stdin first)
    out.append(("first_part_on_stdin", [f(fmt.write_fasta(b))], fmt.write_fasta(a).encode()))
    # everything on stdin
    out.append(("all_on_stdin", [], fmt.write_fasta(recs).encode()))
    # what kind of object standard input is (pipe above; connected stream socket; redirected regular file) is presentation too
    if rng.random() < 0.5:
        out.append(("first_part_on_stdin_socket", [f(fmt.write_fasta(b))], fmt.write_fasta(a).encode()))
    else:
        out.append(("all_on_stdin_socket", [], fmt.write_fasta(recs).encode()))
    out.append(("first_part_on_stdin_redirected_file", [f(fmt.write_fasta(b))], fmt.write_fasta(a).encode()))
    # mixed formats across parts
    if n >= 4:
        arows = gen.insert_gaps(rng, [s for _, s in a], 0.5, "-")
        out.append(("split_clustal_then_fasta", [f(fmt.write_clustal(list(zip([x for x, _ in a], arows)))), f(fmt.write_fasta(b))], None))
    # kalign's own outputs fed back in
    for F in ("fasta", "msf", "clu"):
        o = ck.tmp("." + F)
        r, lrecs = common.kvdrv(paths, ["read 0 %s" % f(fmt.write_fasta(recs)), "run 0 1 5 -1 -1 -1", "write 0 %s %s" % (F, o)], scratch=ck.scratch)
        if os.path.exists(o):
            out.append(("kalign_own_%s_output" % F, [o], None))
    if tier == "quick":
        keep = rng.sample(out, min(16, len(out)))
        # always keep the split presentations with a one-record / empty part
        must = [p for p in out if "one_record" in p[0] or "empty" in p[0] or "stdin" in p[0] or "leading_blank" in p[0] or "stray_gap" in p[0] or "plain_then_aligned" in p[0] or "unwrapped" in p[0] or "gapped_record" in p[0] or "gapped_file" in p[0]]
        out = must + [p for p in keep if p not in must][:max(0, 16 - len(must))]
    return out


def run_case(ck, paths, idx, tier):
    rng = ck.rng.__class__(ck.seed * 198491317 + idx)
    kind, recs = gen_records(rng)
    word = rng.choice(kal.ADMISSIBLE[kind])
    ctx = {"idx": idx, "kind": kind, "type": word, "records": recs if sum(len(s) for _, s in recs) < 6000 else "(seed-derived)"}
    res, base = kal.cli_align(ck, paths, recs=recs, word=word, nthreads=1, ctx=ctx)
    if base is None:
        if res.proc.rc == 1:
            ck.violation("bare-fasta-rejected", res.stderr[-300:], ctx)
        return
    errs = fmt.check_alignment(recs, base, "base")
    if errs:
        ck.violation("base-output-invalid", errs[0], ctx)
        return
    base_bytes = res.out_bytes
    for label, files, sin in presentations(ck, rng, recs, paths, base, tier):
        out = ck.tmp(".out")
        if "stdin_redirected_file" in label:
            sf = ck.tmp(".stdin")
            common.write_bytes(sf, sin)
            r2 = common.kalign_cli(paths, files, args=kal.type_args(word), nthreads=1, out=out, stdin_file=sf)
        else:
            r2 = common.kalign_cli(paths, files, args=kal.type_args(word), nthreads=1, out=out, stdin_data=sin, stdin_socket="stdin_socket" in label)
        cls = re.sub(r"_\d+cols$", "", label.split("_rate")[0].split("_sym")[0])
        c2 = dict(ctx, presentation=label, files=[open(x, "rb").read().decode("latin-1")[:3000] for x in files],
                  stdin=sin.decode("latin-1")[:2000] if sin else None)
        ck.count("presentations")
        ck.count("presentation_%s" % cls)
        if ck.proc_violations(r2.proc, c2):
            continue
        if r2.rc != 0:
            ck.violation("rejected:%s" % cls, "presentation %s of an accepted record set is rejected: %s" % (label, r2.stderr.strip().split("\n")[0][:200]), c2)
            continue
        if r2.out_bytes != base_bytes:
            try:
                rows = fmt.parse_fasta(r2.out_bytes)
                what = "%d rows vs %d" % (len(rows), len(base)) if len(rows) != len(base) else (
                    "names differ" if [n for n, _ in rows] != [n for n, _ in base] else "rows differ (first at %d)" % next(i for i in range(len(rows)) if rows[i] != base[i]))
            except Exception as ex:
                what = "unparsable output: %s" % ex
            ck.violation("result-differs:%s" % cls, "presentation %s gives a different result than the bare FASTA file: %s" % (label, what), c2)
    ck.evaluated((idx, len(recs), hash(tuple(recs)) & 0xffffff) if any("-" in s for _, s in base) else None)
    ck.count("record_sets")
    ck.count("kind_%s" % kind)
    if idx < 3:
        ck.sample({"kind": kind, "n": len(recs), "type": word, "first_record": [recs[0][0][:30], recs[0][1][:40]]})


def run(ck, tier):
    paths = build("asan")
    sc = getattr(ck, "scale", 1.0)
    n = int((60 if tier == "quick" else 800) * sc)
    common.pmap(lambda i: run_case(ck, paths, i, tier), range(n), workers=10)
    ck.rule = ("record sets (DNA/RNA/protein, 3..30 and 51..120 records, incl. very short sequences under 100..200-character names) re-presented as: aligned FASTA with 0.05..20 gap "
               "characters per residue using - . ~ * _; FASTA line widths 1..5000; blank lines (1..12 leading), trailing blanks, CRLF, missing final newline; gap characters only in a late record, plain part followed by an aligned part; Clustal W/O/Kalign headers with block "
               "widths 20..120, name padding 1..40, consensus and residue-count columns; MSF with 10-column groups and ./~ gaps; unwrapped Clustal/MSF with lines of 9000+ characters; 2..5 files in order, one-record first/last part, "
               "empty part, first part or everything on stdin, mixed formats across parts; kalign's own three output formats. Oracle: output bytes equal to the bare one-file FASTA "
               "run. Non-trivial = base alignment contains gaps.")
    ck.assumptions = ["names without whitespace; residues are letters; records keep their order across parts", "tab characters inside sequence lines are not generated"]


def replay(ck, doc):
    paths = build("asan")
    run_case(ck, paths, doc["replay"]["idx"], "thorough")
    with ck.lock:
        ck.nontrivial |= set(range(30))
