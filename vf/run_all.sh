#!/bin/bash
# run every quick (or thorough) check once; prints a summary table
tier=${1:-quick}
cd "$(dirname "$0")/.."
for id in C01 C02 C03 C04 C05 C06 C07 C08 C09 C10 C11 C12 C13 C14 C15 C16 C17; do
  s=$(date +%s)
  python3 vf/check.py $id --tier $tier > /tmp/runall_$id.log 2>&1 </dev/null
  rc=$?
  e=$(( $(date +%s) - s ))
  echo "$id rc=$rc ${e}s $(tail -1 /tmp/runall_$id.log | cut -c1-150)"
done
