#!/usr/bin/env python3
"""Run the checks against every seeded change in /verif/seeded/ (apply to /repo's working tree, run, revert)
and write /verif/seeded/RESULTS.json + a table.  usage: seeded_matrix.py [--tier quick] [NAME...]"""
import json
import os
import subprocess
import sys
import time

VERIF = os.path.dirname(os.path.dirname(os.path.abspath(__file__)))
EXTRA = {"C12-1": ["C11"], "C11-2": ["C02"], "C10-2": ["C01"], "C06-2": ["C15"], "C15-1": ["C06"], "C04-2": ["C10"], "C01-1": ["C15", "C06"], "C13-1": ["C04"],
         "C09-2": [], "C07-4": ["C09"], "C03-6": ["C04", "C06"], "C07-5": ["C16"], "C13-6": ["C16"], "C12-6": ["C04"], "C15-5": ["C06"], "C08-5": ["C16"], "C01-5": ["C06", "C16"], "C01-6": ["C02"], "C02-6": ["C16"], "C04-6": ["C16"], "C05-6": ["C02"], "C09-5": ["C02"], "C09-6": ["C16"], "C10-6": ["C16"], "C16-2": ["C06"], "C14-2": ["C03"], "C03-1": ["C14"], "C05-2": ["C04"], "C08-1": ["C09"], "C02-1": ["C03"],
         "C07-7": ["C09"], "C08-7": ["C02"], "C05-7": ["C06"], "C10-7": ["C09"], "C16-7": ["C12"],
         "C07-8": ["C08"], "C06-8": ["C15"], "C10-8": ["C01"]}


def main():
    tier = "thorough" if "--thorough" in sys.argv else "quick"
    names = [a for a in sys.argv[1:] if not a.startswith("--")] or sorted(d for d in os.listdir(os.path.join(VERIF, "seeded")) if os.path.isdir(os.path.join(VERIF, "seeded", d)))
    st = subprocess.run(["git", "-C", "/repo", "status", "--porcelain", "--untracked-files=no"], stdout=subprocess.PIPE).stdout.decode().strip()
    if st:
        print("refusing: /repo has uncommitted changes")
        return 2
    resf = os.path.join(VERIF, "seeded", "RESULTS.json")
    results = json.load(open(resf)) if os.path.exists(resf) else {}
    head = subprocess.run(["git", "-C", "/repo", "rev-parse", "--short", "HEAD"], stdout=subprocess.PIPE).stdout.decode().strip()
    for nm in names:
        patch = os.path.join(VERIF, "seeded", nm, "patch.diff")
        pid = nm.split("-")[0]
        r = subprocess.run(["git", "-C", "/repo", "apply", patch])
        if r.returncode != 0:
            results[nm] = {"applies": False, "head": head}
            print(nm, "DOES NOT APPLY")
            continue
        entry = {"applies": True, "head": head, "tier": tier, "checks": {}}
        try:
            for cid in [pid] + EXTRA.get(nm, []):
                t0 = time.time()
                # evidence of runs against a patched tree must not replace the evidence of the registered checks
                env = dict(os.environ, KV_EVIDENCE_DIR=os.path.join(VERIF, "scratch", "matrix_evidence"))
                p = subprocess.run([sys.executable, os.path.join(VERIF, "vf", "check.py"), cid, "--tier", tier], stdout=subprocess.PIPE, stderr=subprocess.STDOUT, cwd=VERIF, stdin=subprocess.DEVNULL, env=env)
                out = p.stdout.decode(errors="replace")
                keys = [l.strip()[4:].split(" (x")[0] for l in out.split("\n") if l.strip().startswith("key=")]
                entry["checks"][cid] = {"rc": p.returncode, "verdict": {0: "missed", 1: "detected", 2: "inconclusive"}.get(p.returncode, "error"), "keys": keys[:8], "wall_s": round(time.time() - t0, 1)}
                print(nm, cid, entry["checks"][cid]["verdict"], keys[:3])
        finally:
            subprocess.run(["git", "-C", "/repo", "checkout", "--", "."])
        results[nm] = entry
        json.dump(results, open(resf, "w"), indent=1, sort_keys=True)
    return 0


if __name__ == "__main__":
    sys.exit(main())
