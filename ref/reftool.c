/* Independent reference computations used by the oracles (no kalign code).
 *
 *  reftool sgdist   : stdin lines "TEXT PATTERN" -> per line: min over substrings of TEXT of the
 *                     edit distance to PATTERN (its first 1024 symbols)
 *  reftool cmpscore : stdin: "N" then N lines "name ref_row test_row" (rows gapped with '-'),
 *                     prints the comparison score of C17:
 *                     100 * |{(i,j,x): partner-or-gap of residue x of row i in row j equal in test and ref}| / |{(i,j,x)}|
 */
#include <stdio.h>
#include <stdlib.h>
#include <string.h>

static int sgdist(const char *t, const char *p)
{
        int n = (int)strlen(t), m = (int)strlen(p);
        if (m > 1024) m = 1024;
        int *prev = malloc(sizeof(int) * (size_t)(m + 1)), *cur = malloc(sizeof(int) * (size_t)(m + 1));
        for (int j = 0; j <= m; j++) prev[j] = j;
        int best = prev[m];
        for (int i = 1; i <= n; i++) {
                cur[0] = 0;
                for (int j = 1; j <= m; j++) {
                        int c = prev[j - 1] + (t[i - 1] != p[j - 1]);
                        if (prev[j] + 1 < c) c = prev[j] + 1;
                        if (cur[j - 1] + 1 < c) c = cur[j - 1] + 1;
                        cur[j] = c;
                }
                if (cur[m] < best) best = cur[m];
                int *x = prev; prev = cur; cur = x;
        }
        free(prev); free(cur);
        return best;
}

/* partner[x] for residues of row a with respect to row b: index of residue of b in the same column, or -1 */
static int *partners(const char *a, const char *b, int *nres)
{
        int L = (int)strlen(a);
        int *out = malloc(sizeof(int) * (size_t)(L + 1));
        int ia = 0, ib = 0;
        for (int c = 0; c < L; c++) {
                int ra = a[c] != '-', rb = b[c] != '-';
                if (ra) { out[ia] = rb ? ib : -1; }
                if (ra) ia++;
                if (rb) ib++;
        }
        *nres = ia;
        return out;
}

int main(int argc, char **argv)
{
        if (argc < 2) return 2;
        if (!strcmp(argv[1], "sgdist")) {
                char *line = NULL; size_t bl = 0; ssize_t r;
                while ((r = getline(&line, &bl, stdin)) != -1) {
                        char *sp = strchr(line, ' ');
                        if (!sp) continue;
                        *sp = 0;
                        char *p = sp + 1;
                        size_t l = strlen(p);
                        while (l && (p[l - 1] == '\n' || p[l - 1] == '\r')) p[--l] = 0;
                        printf("%d\n", sgdist(line, p));
                }
                free(line);
                return 0;
        }
        if (!strcmp(argv[1], "cmpscore")) {
                int n;
                if (scanf("%d", &n) != 1) return 2;
                char **ref = malloc(sizeof(char *) * (size_t)n), **tst = malloc(sizeof(char *) * (size_t)n);
                for (int i = 0; i < n; i++) {
                        char *nm = NULL;
                        if (scanf(" %ms %ms %ms", &nm, &ref[i], &tst[i]) != 3) return 2;
                        free(nm);
                }
                double same = 0, tot = 0;
                for (int i = 0; i < n; i++) for (int j = 0; j < n; j++) {
                        if (i == j) continue;
                        int nr, nt;
                        int *pr = partners(ref[i], ref[j], &nr);
                        int *pt = partners(tst[i], tst[j], &nt);
                        if (nr != nt) { printf("ERR residue counts differ for row %d\n", i); return 1; }
                        for (int x = 0; x < nr; x++) { tot += 1; if (pr[x] == pt[x]) same += 1; }
                        free(pr); free(pt);
                }
                printf("%.9f %.0f %.0f\n", tot > 0 ? 100.0 * same / tot : 0.0, same, tot);
                return 0;
        }
        return 2;
}
