/* C07 reference: interval three-state alignment scoring with kalign-like terminal handling (DESIGN.md 4/C07).
 * stdin, repeated: n m gpo gpe tgpe nsym ; nsym x nsym matrix ; n codes of a ; m codes of b ; for i in 1..n: partner j of a[i] or 0
 * stdout per case: OK S_lo(A*) S_hi(A*) opt_hi best_other_hi margin   |  INVALID (planted alignment has adjacent GA/GB runs)
 * margin = S_lo(A*) - max over all alignments A' != A* of S_hi(A')  (exact, full matrix forward/backward) */
#include <stdio.h>
#include <stdlib.h>
#include <float.h>
#include <math.h>
#define NEG -1e30
static int n,m,ns; static double gpo,gpe,tgpe; static double S[32][32]; static int *a,*b,*P;
enum {M=0,GA=1,GB=2};
// edge weight from state s at (i,j) to state t at (i',j'); mode 0=lo(pessimistic),1=hi(optimistic)
static double wgt(int s,int i,int j,int t,int mode){
  double mx_e = gpe>tgpe?gpe:tgpe, mn_e = gpe<tgpe?gpe:tgpe;
  double mx_c = gpo>tgpe?gpo:tgpe, mn_c = gpo<tgpe?gpo:tgpe;
  double ext_gb = mode? mn_e: mx_e; double clo = mode? mn_c: mx_c;
  // s==-1 means START at (0,0)
  if(t==M){ // to (i+1,j+1)
    double sub=S[a[i+1]][b[j+1]];
    if(s==-1||s==M) return sub;
    if(s==GA) return sub-gpo;              // closing GA (terminal or internal): gpo
    if(s==GB){ if(j==0) return sub-clo; return sub-gpo; }
  }
  if(t==GA){ // to (i,j+1) consumes b[j+1]
    if(s==GB) return NEG;
    if(i==0){ return -tgpe; }              // leading GA (s is START or GA)
    if(i==n){ if(s==M) return -(gpo+tgpe); return -tgpe; }
    if(s==M) return -gpo; return -gpe;
  }
  if(t==GB){ // to (i+1,j) consumes a[i+1]
    if(s==GA) return NEG;
    if(j==0){ return -tgpe; }
    if(j==m){ if(s==M) return -(tgpe+clo); return -tgpe; }
    if(s==M) return -gpo; return -ext_gb;
  }
  return NEG;
}
static double *F,*B; 
#define IDX(i,j,s) ((((size_t)(i))*(m+1)+(j))*3+(s))
static void fill(int mode){
  for(size_t k=0;k<(size_t)(n+1)*(m+1)*3;k++){F[k]=NEG;B[k]=NEG;}
  // forward: F[i][j][s] best score from START to being in state s at (i,j) (having consumed a[1..i], b[1..j])
  for(int i=0;i<=n;i++)for(int j=0;j<=m;j++){
    for(int s=-1;s<3;s++){
      double base; if(s==-1){ if(i||j) continue; base=0; } else { base=F[IDX(i,j,s)]; if(base<=NEG/2) continue; }
      if(i<n&&j<n+m&&j<m){ double w=wgt(s,i,j,M,mode); if(w>NEG/2){ double v=base+w; if(v>F[IDX(i+1,j+1,M)])F[IDX(i+1,j+1,M)]=v; } }
      if(j<m){ double w=wgt(s,i,j,GA,mode); if(w>NEG/2){ double v=base+w; if(v>F[IDX(i,j+1,GA)])F[IDX(i,j+1,GA)]=v; } }
      if(i<n){ double w=wgt(s,i,j,GB,mode); if(w>NEG/2){ double v=base+w; if(v>F[IDX(i+1,j,GB)])F[IDX(i+1,j,GB)]=v; } }
    }
  }
  // backward: B[i][j][s] best score from state s at (i,j) to END (n,m)
  for(int s=0;s<3;s++) B[IDX(n,m,s)]=0;
  for(int i=n;i>=0;i--)for(int j=m;j>=0;j--){ if(i==n&&j==m) continue;
    for(int s=0;s<3;s++){
      double best=NEG;
      if(i<n&&j<m){ double w=wgt(s,i,j,M,mode); if(w>NEG/2&&B[IDX(i+1,j+1,M)]>NEG/2){ double v=w+B[IDX(i+1,j+1,M)]; if(v>best)best=v; } }
      if(j<m){ double w=wgt(s,i,j,GA,mode); if(w>NEG/2&&B[IDX(i,j+1,GA)]>NEG/2){ double v=w+B[IDX(i,j+1,GA)]; if(v>best)best=v; } }
      if(i<n){ double w=wgt(s,i,j,GB,mode); if(w>NEG/2&&B[IDX(i+1,j,GB)]>NEG/2){ double v=w+B[IDX(i+1,j,GB)]; if(v>best)best=v; } }
      B[IDX(i,j,s)]=best;
    }
  }
}

static int one_case(void){
  if(scanf("%d %d %lf %lf %lf %d",&n,&m,&gpo,&gpe,&tgpe,&ns)!=6) return 0;
  for(int i=0;i<ns;i++)for(int j=0;j<ns;j++) if(scanf("%lf",&S[i][j])!=1) return 0;
  a=malloc(sizeof(int)*(n+2)); b=malloc(sizeof(int)*(m+2)); P=malloc(sizeof(int)*(n+2));
  for(int i=1;i<=n;i++) if(scanf("%d",&a[i])!=1) return 0;
  for(int j=1;j<=m;j++) if(scanf("%d",&b[j])!=1) return 0;
  for(int i=1;i<=n;i++) if(scanf("%d",&P[i])!=1) return 0;
  F=malloc(sizeof(double)*(size_t)(n+1)*(m+1)*3); B=malloc(sizeof(double)*(size_t)(n+1)*(m+1)*3);
  int L=0; int *pi=malloc(sizeof(int)*(n+m+2)),*pj=malloc(sizeof(int)*(n+m+2)),*ps=malloc(sizeof(int)*(n+m+2));
  { int i=0,j=0;
    for(int r=1;r<=n;r++){ if(P[r]>0){ while(j<P[r]-1){ j++; pi[L]=i;pj[L]=j;ps[L]=GA;L++; } i=r;j=P[r]; pi[L]=i;pj[L]=j;ps[L]=M;L++; } else { i=r; pi[L]=i;pj[L]=j;ps[L]=GB;L++; } }
    while(j<m){ j++; pi[L]=i;pj[L]=j;ps[L]=GA;L++; } }
  double slo=0,shi=0; int invalid=0;
  { int s=-1,i=0,j=0; for(int k=0;k<L;k++){ double w0=wgt(s,i,j,ps[k],0), w1=wgt(s,i,j,ps[k],1); if(w0<=NEG/2){ invalid=1; break; } slo+=w0; shi+=w1; s=ps[k]; i=pi[k]; j=pj[k]; } }
  if(invalid){ printf("INVALID\n"); }
  else {
    fill(1);
    int *onp=malloc(sizeof(int)*(size_t)(n+1)*(m+1)*3); for(size_t k=0;k<(size_t)(n+1)*(m+1)*3;k++) onp[k]=-2;
    { int s=-1; for(int k=0;k<L;k++){ onp[IDX(pi[k],pj[k],ps[k])]=s; s=ps[k]; } }
    double best=NEG;
    for(int i=0;i<=n;i++)for(int j=0;j<=m;j++)for(int s=-1;s<3;s++){
      double base; if(s==-1){ if(i||j) continue; base=0;} else { base=F[IDX(i,j,s)]; if(base<=NEG/2) continue; }
      for(int t=0;t<3;t++){ int i2=i+(t!=GA), j2=j+(t!=GB); if(i2>n||j2>m) continue; double w=wgt(s,i,j,t,1); if(w<=NEG/2) continue; double bb=B[IDX(i2,j2,t)]; if(bb<=NEG/2) continue;
        if(onp[IDX(i2,j2,t)]==s) continue;
        double v=base+w+bb; if(v>best)best=v; }
    }
    double opt=NEG; for(int s=0;s<3;s++) if(F[IDX(n,m,s)]>opt) opt=F[IDX(n,m,s)];
    printf("OK %.4f %.4f %.4f %.4f %.4f\n",slo,shi,opt,best,slo-best);
    free(onp);
  }
  free(a);free(b);free(P);free(F);free(B);free(pi);free(pj);free(ps);
  return 1;
}
int main(void){ while(one_case()){} return 0; }
