/* Allocation accounting for kalign objects, linked with
 *   -Wl,--wrap=malloc,--wrap=calloc,--wrap=realloc,--wrap=free,--wrap=posix_memalign,--wrap=aligned_alloc
 * Only references made from the objects linked into the binary (kalign code and
 * the driver) are redirected; allocations made inside libc / libgomp are not,
 * which is the "OpenMP runtime's own thread pool aside" of C16.
 * free() of a pointer that was never recorded (e.g. getline's buffer) is
 * passed through untouched.
 */
#define _GNU_SOURCE
#ifdef KV_NOWRAP
/* build without --wrap: accounting is not available, accessors return -1 */
long kv_live_blocks(void) { return -1; }
long kv_live_bytes(void) { return -1; }
long kv_total_blocks(void) { return -1; }
long kv_peak_blocks(void) { return -1; }
long kv_unknown_frees(void) { return -1; }
long kv_pool_hits(void) { return -1; }
void kv_alloc_fill(int on, int byte) { (void)on; (void)byte; }
#else
#include <stdlib.h>
#include <stdint.h>
#include <pthread.h>
#include <string.h>

void *__real_malloc(size_t);
void __real_free(void *);
void *__real_realloc(void *, size_t);
void *__real_calloc(size_t, size_t);
int __real_posix_memalign(void **, size_t, size_t);
void *__real_aligned_alloc(size_t, size_t);

#include <malloc.h>

static pthread_mutex_t amu = PTHREAD_MUTEX_INITIALIZER;
#define HS (1u << 22)
static void *tab[HS];
static size_t tabsz[HS];
static unsigned char tabkind[HS];   /* 1 = plain malloc/calloc/realloc block, 2 = aligned */

/* Hostile-allocator mode (KV_ALLOC_SHUFFLE=<seed>): freed blocks of up to 1024 bytes are parked in per-size-class pools and handed out again,
 * a randomly chosen one that is large enough, with their old contents, to later requests of the same class.  Any address a program has
 * freed may come back for any later allocation of a similar size: this is what the C library is allowed to do, made frequent and varied. */
#define NCLS 65
#define POOLCAP 48
static void *pool[NCLS][POOLCAP];
static int pooln[NCLS];
static int shuffle_mode = -1;
static unsigned long long shuffle_state;
static long pool_hits;

static void shuffle_init(void)
{
        const char *e = getenv("KV_ALLOC_SHUFFLE");
        shuffle_mode = (e && *e) ? 1 : 0;
        shuffle_state = 0x9E3779B97F4A7C15ULL ^ (unsigned long long)(e ? strtoull(e, NULL, 10) : 0) * 0xD1B54A32D192ED03ULL;
        if (!shuffle_state) shuffle_state = 1;
}
static unsigned shuffle_rnd(void)
{
        shuffle_state ^= shuffle_state << 13; shuffle_state ^= shuffle_state >> 7; shuffle_state ^= shuffle_state << 17;
        return (unsigned)(shuffle_state >> 33);
}
/* caller holds amu */
static void *pool_take(size_t n)
{
        if (shuffle_mode <= 0 || n == 0 || n > 1024) return NULL;
        int c = (int)((n + 15) >> 4);
        if (!pooln[c] || (shuffle_rnd() & 3) == 0) return NULL;
        int start = (int)(shuffle_rnd() % (unsigned)pooln[c]);
        for (int k = 0; k < pooln[c]; k++) {
                int i = (start + k) % pooln[c];
                if (malloc_usable_size(pool[c][i]) >= n) {
                        void *p = pool[c][i];
                        pool[c][i] = pool[c][--pooln[c]];
                        pool_hits++;
                        return p;
                }
        }
        return NULL;
}
/* caller holds amu; returns 1 when the block was parked instead of being released */
static int pool_put(void *p, size_t n)
{
        if (shuffle_mode <= 0 || n == 0 || n > 1024) return 0;
        int c = (int)((n + 15) >> 4);
        if (pooln[c] >= POOLCAP) return 0;
        pool[c][pooln[c]++] = p;
        return 1;
}
long kv_pool_hits(void) { return pool_hits; }
static long live, total, peak, unknown_free;
static long live_bytes, peak_bytes;
static int fill_on = 0; static unsigned char fill_byte = 0;

void kv_alloc_fill(int on, int byte) { fill_on = on; fill_byte = (unsigned char)byte; }

static void add_kind(void *p, size_t n, int kind)
{
        if (!p) return;
        pthread_mutex_lock(&amu);
        size_t h = ((uintptr_t)p >> 4) & (HS - 1);
        while (tab[h] && tab[h] != (void *)1) h = (h + 1) & (HS - 1);
        tab[h] = p; tabsz[h] = n; tabkind[h] = (unsigned char)kind;
        live++; total++; live_bytes += (long)n;
        if (live > peak) peak = live;
        if (live_bytes > peak_bytes) peak_bytes = live_bytes;
        pthread_mutex_unlock(&amu);
}

static void add(void *p, size_t n) { add_kind(p, n, 1); }

/* returns 0 = unknown pointer, 1 = known, 2 = known and parked in a pool (must not be released); park = may be parked */
static int del_park(void *p, int park)
{
        int f = 0;
        pthread_mutex_lock(&amu);
        size_t h = ((uintptr_t)p >> 4) & (HS - 1);
        while (tab[h]) {
                if (tab[h] == p) {
                        tab[h] = (void *)1; live--; live_bytes -= (long)tabsz[h]; f = 1;
                        if (park && tabkind[h] == 1 && pool_put(p, tabsz[h])) f = 2;
                        break;
                }
                h = (h + 1) & (HS - 1);
        }
        if (!f) unknown_free++;
        pthread_mutex_unlock(&amu);
        return f;
}
static int del(void *p) { return del_park(p, 0); }

void *__wrap_malloc(size_t n)
{
        void *p = NULL;
        if (shuffle_mode < 0) shuffle_init();
        if (shuffle_mode > 0) { pthread_mutex_lock(&amu); p = pool_take(n); pthread_mutex_unlock(&amu); }
        if (!p) p = __real_malloc(n);
        if (p && fill_on) memset(p, fill_byte, n);
        add(p, n);
        return p;
}
void *__wrap_calloc(size_t a, size_t b)
{
        void *p = NULL;
        if (shuffle_mode < 0) shuffle_init();
        if (shuffle_mode > 0 && (b == 0 || a <= 1024 / b)) { pthread_mutex_lock(&amu); p = pool_take(a * b); pthread_mutex_unlock(&amu); if (p) memset(p, 0, a * b); }
        if (!p) p = __real_calloc(a, b);
        add(p, a * b);
        return p;
}
void *__wrap_realloc(void *o, size_t n)
{
        if (o) del(o);
        void *p = __real_realloc(o, n);
        if (p) add(p, n); else if (o && n) add(o, 0);
        return p;
}
int __wrap_posix_memalign(void **pp, size_t a, size_t n)
{
        int r = __real_posix_memalign(pp, a, n);
        if (!r) { if (fill_on) memset(*pp, fill_byte, n); add_kind(*pp, n, 2); }
        return r;
}
void *__wrap_aligned_alloc(size_t a, size_t n) { void *p = __real_aligned_alloc(a, n); add_kind(p, n, 2); return p; }
void __wrap_free(void *p)
{
        if (shuffle_mode < 0) shuffle_init();
        if (p && del_park(p, 1) == 2) return;
        __real_free(p);
}

long kv_live_blocks(void) { return live; }
long kv_live_bytes(void) { return live_bytes; }
long kv_total_blocks(void) { return total; }
long kv_peak_blocks(void) { return peak; }
long kv_unknown_frees(void) { return unknown_free; }
#endif
