/* Allocation accounting for kalign objects, linked with
 *   -Wl,--wrap=malloc,--wrap=calloc,--wrap=realloc,--wrap=free,--wrap=posix_memalign,--wrap=aligned_alloc
 * Only references made from the objects linked into the binary (kalign code and
 * the driver) are redirected; allocations made inside libc / libgomp are not,
 * which is the "OpenMP runtime's own thread pool aside" of C16.
 * free() of a pointer that was never recorded (e.g. getline's buffer) is
 * passed through untouched.
 */
#define _GNU_SOURCE
#ifdef KV_NOWRAP
/* build without --wrap: accounting is not available, accessors return -1 */
long kv_live_blocks(void) { return -1; }
long kv_live_bytes(void) { return -1; }
long kv_total_blocks(void) { return -1; }
long kv_peak_blocks(void) { return -1; }
long kv_unknown_frees(void) { return -1; }
void kv_alloc_fill(int on, int byte) { (void)on; (void)byte; }
#else
#include <stdlib.h>
#include <stdint.h>
#include <pthread.h>
#include <string.h>

void *__real_malloc(size_t);
void __real_free(void *);
void *__real_realloc(void *, size_t);
void *__real_calloc(size_t, size_t);
int __real_posix_memalign(void **, size_t, size_t);
void *__real_aligned_alloc(size_t, size_t);

static pthread_mutex_t amu = PTHREAD_MUTEX_INITIALIZER;
#define HS (1u << 22)
static void *tab[HS];
static size_t tabsz[HS];
static long live, total, peak, unknown_free;
static long live_bytes, peak_bytes;
static int fill_on = 0; static unsigned char fill_byte = 0;

void kv_alloc_fill(int on, int byte) { fill_on = on; fill_byte = (unsigned char)byte; }

static void add(void *p, size_t n)
{
        if (!p) return;
        pthread_mutex_lock(&amu);
        size_t h = ((uintptr_t)p >> 4) & (HS - 1);
        while (tab[h] && tab[h] != (void *)1) h = (h + 1) & (HS - 1);
        tab[h] = p; tabsz[h] = n;
        live++; total++; live_bytes += (long)n;
        if (live > peak) peak = live;
        if (live_bytes > peak_bytes) peak_bytes = live_bytes;
        pthread_mutex_unlock(&amu);
}

static int del(void *p)
{
        int f = 0;
        pthread_mutex_lock(&amu);
        size_t h = ((uintptr_t)p >> 4) & (HS - 1);
        while (tab[h]) {
                if (tab[h] == p) { tab[h] = (void *)1; live--; live_bytes -= (long)tabsz[h]; f = 1; break; }
                h = (h + 1) & (HS - 1);
        }
        if (!f) unknown_free++;
        pthread_mutex_unlock(&amu);
        return f;
}

void *__wrap_malloc(size_t n)
{
        void *p = __real_malloc(n);
        if (p && fill_on) memset(p, fill_byte, n);
        add(p, n);
        return p;
}
void *__wrap_calloc(size_t a, size_t b) { void *p = __real_calloc(a, b); add(p, a * b); return p; }
void *__wrap_realloc(void *o, size_t n)
{
        if (o) del(o);
        void *p = __real_realloc(o, n);
        if (p) add(p, n); else if (o && n) add(o, 0);
        return p;
}
int __wrap_posix_memalign(void **pp, size_t a, size_t n)
{
        int r = __real_posix_memalign(pp, a, n);
        if (!r) { if (fill_on) memset(*pp, fill_byte, n); add(*pp, n); }
        return r;
}
void *__wrap_aligned_alloc(size_t a, size_t n) { void *p = __real_aligned_alloc(a, n); add(p, n); return p; }
void __wrap_free(void *p) { if (p) del(p); __real_free(p); }

long kv_live_blocks(void) { return live; }
long kv_live_bytes(void) { return live_bytes; }
long kv_total_blocks(void) { return total; }
long kv_peak_blocks(void) { return peak; }
long kv_unknown_frees(void) { return unknown_free; }
#endif
