/* Monitor runtime linked into every -DKALIGN_VERIF build of kalign.
 *
 * Implements the hooks declared in /repo/lib/src/kalign_verif.h:
 *   - an event counter + online checkers for the ordering part of C02
 *     (merge ordering / exactly-once, forward+backward before meet-up,
 *      k-means restarts finished before the reduction),
 *   - node-completion snapshots and the final projection check for C10,
 *   - a record of the scoring parameters actually used (C09),
 *   - seeded delay injection at task-body starts.
 *
 * All monitor state is protected by one mutex; injected delays are taken
 * before the mutex, never while holding it.
 *
 * Environment:
 *   KALIGN_VERIF_LOG   file to append one JSON line per record (default: none;
 *                      violations then go to stderr)
 *   KV_DELAY           "permille:max_us"  (default 0:0 = no delays)
 *   VERIF_SEED         seed of the delay streams
 *   KV_SNAP            1 = take C10 snapshots (default 0)
 *   KV_SNAP_BUDGET     max number of ints stored in snapshots (default 60e6)
 *   KV_PARAM_MATRIX    1 = dump the 23x23 matrix in param records
 *   KV_ORDER           1 = include merge completion order in run records
 */
#define _GNU_SOURCE
#include <stdio.h>
#include <stdlib.h>
#include <stdint.h>
#include <string.h>
#include <pthread.h>
#include <time.h>
#include <unistd.h>
#include <sched.h>

#include "msa_struct.h"
#include "task.h"
#include "aln_struct.h"
#include "aln_param.h"
#include "kalign_verif.h"

#define KV_EXIT_VIOLATION 97

static pthread_mutex_t mu = PTHREAD_MUTEX_INITIALIZER;
static pthread_once_t once = PTHREAD_ONCE_INIT;

static FILE *logf = NULL;
static int delay_permille = 0;
static int delay_max_us = 0;
static uint64_t seed = 1;
static int snap_on = 0;
static long snap_budget = 60000000L;
static int param_matrix = 0;
static int order_on = 0;
static int trace_on = 0;

static uint64_t event_counter = 0;

/* ---------------- recent-event ring (witness) ---------------- */
struct ev { uint64_t n; int kind; long a; long b; unsigned tid; };
#define RING 256
static struct ev ring[RING];
static uint64_t ring_n = 0;

static __thread unsigned my_tid = 0;
static unsigned tid_counter = 0;
static __thread uint64_t my_rng = 0;

enum { E_MERGE_BEGIN = 100, E_MERGE_END, E_DP, E_KM, E_RUN, E_PARAM };

static void init_once(void)
{
        const char *p = getenv("KALIGN_VERIF_LOG");
        if (p && *p) {
                logf = fopen(p, "a");
        }
        p = getenv("KV_DELAY");
        if (p) {
                sscanf(p, "%d:%d", &delay_permille, &delay_max_us);
        }
        p = getenv("VERIF_SEED");
        if (p) {
                seed = strtoull(p, NULL, 10) * 0x9E3779B97F4A7C15ULL + 0x1234567ULL;
        }
        p = getenv("KV_SNAP");
        if (p) snap_on = atoi(p);
        p = getenv("KV_SNAP_BUDGET");
        if (p) snap_budget = atol(p);
        p = getenv("KV_PARAM_MATRIX");
        if (p) param_matrix = atoi(p);
        p = getenv("KV_ORDER");
        if (p) order_on = atoi(p);
        p = getenv("KV_TRACE");
        if (p) trace_on = atoi(p);
}

static inline void ensure_thread(void)
{
        pthread_once(&once, init_once);
        if (!my_tid) {
                my_tid = __atomic_add_fetch(&tid_counter, 1, __ATOMIC_RELAXED);
                my_rng = seed ^ ((uint64_t)my_tid * 0xD1B54A32D192ED03ULL);
                if (!my_rng) my_rng = 88172645463325252ULL;
        }
}

static inline uint64_t rnd(void)
{
        my_rng ^= my_rng << 13;
        my_rng ^= my_rng >> 7;
        my_rng ^= my_rng << 17;
        return my_rng;
}

static long n_delays = 0;

static void maybe_delay(void)
{
        if (delay_permille <= 0) return;
        if ((int)(rnd() % 1000) < delay_permille) {
                __atomic_add_fetch(&n_delays, 1, __ATOMIC_RELAXED);
                if (delay_max_us <= 0 || (rnd() & 3) == 0) {
                        sched_yield();
                } else {
                        struct timespec ts;
                        ts.tv_sec = 0;
                        ts.tv_nsec = (long)(rnd() % (uint64_t)delay_max_us) * 1000L;
                        nanosleep(&ts, NULL);
                }
        }
}

static void push_ev(int kind, long a, long b)
{
        struct ev *e = &ring[ring_n % RING];
        e->n = ++event_counter;
        e->kind = kind;
        e->a = a;
        e->b = b;
        e->tid = my_tid;
        ring_n++;
        if (trace_on && logf) fprintf(logf, "{\"rec\":\"ev\",\"n\":%llu,\"kind\":%d,\"a\":%ld,\"b\":%ld,\"tid\":%u}\n", (unsigned long long)e->n, kind, a, b, my_tid);
}

static void out(const char *s)
{
        if (logf) {
                fputs(s, logf);
                fflush(logf);
        } else {
                fputs(s, stderr);
        }
}

static void dump_ring(char *buf, size_t cap)
{
        size_t o = 0;
        uint64_t start = ring_n > 60 ? ring_n - 60 : 0;
        o += snprintf(buf + o, cap - o, "[");
        for (uint64_t i = start; i < ring_n && o + 80 < cap; i++) {
                struct ev *e = &ring[i % RING];
                o += snprintf(buf + o, cap - o, "%s[%llu,%d,%ld,%ld,%u]", i == start ? "" : ",",
                              (unsigned long long)e->n, e->kind, e->a, e->b, e->tid);
        }
        snprintf(buf + o, cap - o, "]");
}

/* report a violation found by an online checker and stop the process */
static void violation(const char *prop, const char *key, const char *detail)
{
        static char buf[16384];
        static char rb[12000];
        dump_ring(rb, sizeof(rb));
        snprintf(buf, sizeof(buf), "{\"rec\":\"violation\",\"property\":\"%s\",\"key\":\"%s\",\"detail\":\"%s\",\"events\":%s}\n",
                 prop, key, detail, rb);
        out(buf);
        if (logf) fflush(logf);
        fprintf(stderr, "KV-VIOLATION %s %s %s\n", prop, key, detail);
        fflush(stderr);
        _exit(KV_EXIT_VIOLATION);
}

/* ---------------- per-run merge state ---------------- */
struct snap {
        int node;
        int nmem;
        int plen;
        struct msa_seq **mem; /* member pointers */
        int **gaps;           /* copies of gaps[0..len] */
        int *len;
};

static struct {
        struct msa *msa;
        int active;
        int numseq;       /* at time of first merge */
        int num_profiles;
        uint8_t *began;
        uint8_t *ended;
        int n_began, n_ended;
        int in_flight, max_in_flight;
        int last_ended;
        int *order; int n_order;
        struct snap *snaps; int n_snaps, cap_snaps;
        long snap_ints; int snaps_skipped;
        long dp_steps, dp_overlap, dp_par_steps;
        long km_splits, km_reduces, km_nodes, km_split_overlap;
        unsigned tids_seen[64]; int n_tids;
        uint64_t run_id;
        int *mark; int stamp;
        int dash_residue;
} R;

static uint64_t run_counter = 0;

static void note_tid(void)
{
        for (int i = 0; i < R.n_tids; i++) if (R.tids_seen[i] == my_tid) return;
        if (R.n_tids < 64) R.tids_seen[R.n_tids++] = my_tid;
}

/* ---------------- DP state per aln_mem ---------------- */
struct dpst { const void *m; int fb, fe, bb, be, mb, me; };
#define DPTAB 4096
static struct dpst dptab[DPTAB];

static struct dpst *dp_find(const void *m, int create)
{
        size_t h = (((uintptr_t)m) >> 4) % DPTAB;
        for (int k = 0; k < DPTAB; k++) {
                struct dpst *d = &dptab[(h + k) % DPTAB];
                if (d->m == m) return d;
                if (d->m == NULL) {
                        if (!create) return NULL;
                        memset(d, 0, sizeof(*d));
                        d->m = m;
                        return d;
                }
        }
        return NULL;
}

static void dp_reset(const void *m)
{
        struct dpst *d = dp_find(m, 1);
        if (d) { const void *k = d->m; memset(d, 0, sizeof(*d)); d->m = k; }
}

/* ---------------- k-means slot state ---------------- */
struct kmst { const void *slot; int begun, ended, reduces; };
#define KMTAB 8192
static struct kmst kmtab[KMTAB];

static struct kmst *km_find(const void *slot)
{
        size_t h = (((uintptr_t)slot) >> 3) % KMTAB;
        for (int k = 0; k < KMTAB; k++) {
                struct kmst *d = &kmtab[(h + k) % KMTAB];
                if (d->slot == slot) return d;
                if (d->slot == NULL) {
                        memset(d, 0, sizeof(*d));
                        d->slot = slot;
                        return d;
                }
        }
        return NULL;
}

static int km_open = 0; /* splits currently running */

/* ---------------- hooks ---------------- */

static void free_run_state(void)
{
        free(R.began); free(R.ended); free(R.order); free(R.mark);
        for (int i = 0; i < R.n_snaps; i++) {
                struct snap *s = &R.snaps[i];
                for (int k = 0; k < s->nmem; k++) free(s->gaps[k]);
                free(s->gaps); free(s->mem); free(s->len);
        }
        free(R.snaps);
        memset(&R, 0, sizeof(R));
}

void kv_run(int kind, struct msa *msa)
{
        ensure_thread();
        pthread_mutex_lock(&mu);
        if (kind == 0) {
                if (R.active) free_run_state();
                memset(&R, 0, sizeof(R));
                R.msa = msa;
                R.active = 1;
                R.run_id = ++run_counter;
                R.last_ended = -1;
                /* through the array API every byte is a residue, '-' included; the rendering invariant below cannot tell such a residue
                   from a gap, so it is skipped for inputs that contain one (file readers never store '-' as a residue) */
                if (msa && msa->sequences) {
                        for (int i = 0; i < msa->numseq && !R.dash_residue; i++) {
                                struct msa_seq *q = msa->sequences[i];
                                if (q && q->seq && q->len > 0 && memchr(q->seq, '-', (size_t)q->len)) R.dash_residue = 1;
                        }
                }
                memset(kmtab, 0, sizeof(kmtab));
                memset(dptab, 0, sizeof(dptab));
                km_open = 0;
                push_ev(E_RUN, 0, 0);
                pthread_mutex_unlock(&mu);
                return;
        }
        /* kind == 1: kalign_run finished successfully */
        push_ev(E_RUN, 1, 0);
        if (!R.active || R.msa != msa) {
                pthread_mutex_unlock(&mu);
                return;
        }
        char det[512];
        if (R.began) {
                if (R.n_ended != R.numseq - 1 || R.n_began != R.numseq - 1) {
                        snprintf(det, sizeof det, "merges began %d ended %d expected %d", R.n_began, R.n_ended, R.numseq - 1);
                        violation("C02", "merge-count", det);
                }
                /* the root is node 2*numseq-2 (numseq after removal of empty sequences; msa->num_profiles may be larger) */
                if (R.last_ended != 2 * R.numseq - 2) {
                        snprintf(det, sizeof det, "last merge to end was node %d, root is %d", R.last_ended, 2 * R.numseq - 2);
                        violation("C02", "root-not-last", det);
                }
        } else if (msa->numseq >= 2) {
                violation("C02", "no-merge-observed", "kalign_run returned OK without any merge event");
        }
        /* rendering invariant: the gapped rows handed to the caller are exactly what the gap vectors say */
        if (msa->aligned == ALN_STATUS_FINAL && msa->alnlen > 0 && !R.dash_residue) {
                for (int i = 0; i < msa->numseq; i++) {
                        struct msa_seq *q = msa->sequences[i];
                        long pos = 0, nres = 0;
                        int bad = 0;
                        for (int r = 0; r <= q->len && !bad; r++) {
                                for (int g = 0; g < q->gaps[r]; g++) {
                                        if (pos >= msa->alnlen || q->seq[pos] != '-') { bad = 1; break; }
                                        pos++;
                                }
                                if (bad || r == q->len) break;
                                if (pos >= msa->alnlen || q->seq[pos] == '-' || q->seq[pos] == 0) { bad = 1; break; }
                                pos++; nres++;
                        }
                        if (bad || pos != msa->alnlen) {
                                snprintf(det, sizeof det, "sequence %d (rank %d): the rendered row disagrees with its gap vector at column %ld (alnlen %d)", i, q->rank, pos, msa->alnlen);
                                violation("C10", "rendered-row-disagrees-with-gaps", det);
                        }
                }
        }
        /* C10: check snapshots against the final alignment */
        long nodes_checked = 0, residues_checked = 0, c10_viol = 0;
        int maxmem = 0;
        char firstv[400]; firstv[0] = 0;
        if (snap_on && msa->aligned == ALN_STATUS_FINAL) {
                int alnlen = msa->alnlen;
                int *used = calloc((size_t)alnlen + 2, sizeof(int));
                for (int i = 0; i < R.n_snaps; i++) {
                        struct snap *s = &R.snaps[i];
                        memset(used, 0, sizeof(int) * ((size_t)alnlen + 2));
                        int bad = 0;
                        /* mark columns used by members in the final alignment */
                        for (int k = 0; k < s->nmem && !bad; k++) {
                                struct msa_seq *q = s->mem[k];
                                if (q->len != s->len[k]) { bad = 1; snprintf(firstv, sizeof firstv, "node %d member %d length changed", s->node, k); break; }
                                long pos = -1;
                                for (int r = 0; r < q->len; r++) {
                                        pos += q->gaps[r] + 1;
                                        if (pos >= alnlen) { bad = 1; snprintf(firstv, sizeof firstv, "node %d member %d residue %d beyond alnlen", s->node, k, r); break; }
                                        used[pos] = 1;
                                }
                        }
                        if (!bad) {
                                /* prefix ranks */
                                int cnt = 0;
                                for (int c = 0; c < alnlen; c++) { int u = used[c]; used[c] = cnt; cnt += u; }
                                if (cnt != s->plen) {
                                        /* members may have all-gap columns in the snapshot only if plen counts them: a completed
                                           group never contains an all-gap column, so |U| must equal plen */
                                        bad = 1; snprintf(firstv, sizeof firstv, "node %d: %d used columns, group length at completion %d", s->node, cnt, s->plen);
                                }
                                for (int k = 0; k < s->nmem && !bad; k++) {
                                        struct msa_seq *q = s->mem[k];
                                        long pf = -1, ps = -1;
                                        for (int r = 0; r < q->len; r++) {
                                                pf += q->gaps[r] + 1;
                                                ps += s->gaps[k][r] + 1;
                                                if (used[pf] != ps) {
                                                        bad = 1;
                                                        snprintf(firstv, sizeof firstv, "node %d member %d (rank %d) residue %d: column %ld at completion, projected final column %d",
                                                                 s->node, k, q->rank, r, ps, used[pf]);
                                                        break;
                                                }
                                                residues_checked++;
                                        }
                                }
                        }
                        nodes_checked++;
                        if (s->nmem > maxmem) maxmem = s->nmem;
                        if (bad) { c10_viol++; if (c10_viol == 1) { char b2[600]; snprintf(b2, sizeof b2, "{\"rec\":\"c10_witness\",\"detail\":\"%s\"}\n", firstv); out(b2); } }
                }
                free(used);
        }
        /* run record */
        {
                size_t cap = 1024 + (order_on ? (size_t)R.n_order * 8 : 0);
                char *b = malloc(cap);
                size_t o = 0;
                o += snprintf(b + o, cap - o,
                              "{\"rec\":\"run\",\"run\":%llu,\"numseq\":%d,\"merges\":%d,\"max_in_flight\":%d,\"dp_steps\":%ld,\"dp_overlap\":%ld,"
                              "\"km_splits\":%ld,\"km_reduces\":%ld,\"km_nodes\":%ld,\"km_split_overlap\":%ld,\"threads_seen\":%d,\"delays\":%ld,"
                              "\"snap_nodes\":%ld,\"snap_residues\":%ld,\"snap_skipped\":%d,\"snap_maxmem\":%d,\"c10_violations\":%ld,\"events\":%llu",
                              (unsigned long long)R.run_id, R.numseq, R.n_ended, R.max_in_flight, R.dp_steps, R.dp_overlap,
                              R.km_splits, R.km_reduces, R.km_nodes, R.km_split_overlap, R.n_tids, n_delays,
                              nodes_checked, residues_checked, R.snaps_skipped, maxmem, c10_viol, (unsigned long long)event_counter);
                if (order_on) {
                        o += snprintf(b + o, cap - o, ",\"order\":[");
                        for (int i = 0; i < R.n_order; i++) o += snprintf(b + o, cap - o, "%s%d", i ? "," : "", R.order[i]);
                        o += snprintf(b + o, cap - o, "]");
                }
                o += snprintf(b + o, cap - o, "}\n");
                if (logf) out(b);
                free(b);
        }
        if (c10_viol) {
                violation("C10", "projection-differs", firstv);
        }
        free_run_state();
        pthread_mutex_unlock(&mu);
}

void kv_merge_begin(struct msa *msa, struct aln_tasks *t, struct aln_mem *m, int task_id)
{
        ensure_thread();
        maybe_delay();
        pthread_mutex_lock(&mu);
        char det[256];
        if (!R.active || R.msa != msa) {
                /* do_align reached outside kalign_run (not expected) : start an implicit run */
                if (R.active) free_run_state();
                memset(&R, 0, sizeof(R));
                R.msa = msa; R.active = 1; R.run_id = ++run_counter; R.last_ended = -1;
        }
        if (!R.began) {
                R.numseq = msa->numseq;
                R.num_profiles = msa->num_profiles;
                R.began = calloc((size_t)R.num_profiles + 1, 1);
                R.ended = calloc((size_t)R.num_profiles + 1, 1);
                R.order = calloc((size_t)R.num_profiles + 1, sizeof(int));
        }
        int a = t->list[task_id]->a, b = t->list[task_id]->b, c = t->list[task_id]->c;
        push_ev(E_MERGE_BEGIN, c, ((long)a << 32) | (unsigned)b);
        note_tid();
        if (a < 0 || b < 0 || c < R.numseq || a >= R.num_profiles || b >= R.num_profiles || c >= R.num_profiles || a == b) {
                snprintf(det, sizeof det, "task %d has nodes a=%d b=%d c=%d out of range (numseq %d)", task_id, a, b, c, R.numseq);
                violation("C02", "merge-bad-node", det);
        }
        if (R.began[c]) {
                snprintf(det, sizeof det, "node %d merged twice", c);
                violation("C02", "merge-twice", det);
        }
        int xs[2] = { a, b };
        for (int k = 0; k < 2; k++) {
                int x = xs[k];
                if (x >= R.numseq && !R.ended[x]) {
                        snprintf(det, sizeof det, "merge of node %d started before child group %d was complete (child %s)", c, x, R.began[x] ? "in progress" : "not started");
                        violation("C02", "merge-before-child", det);
                }
                if (x >= R.numseq && R.ended[x] == 2) {
                        snprintf(det, sizeof det, "group %d consumed twice", x);
                        violation("C02", "child-consumed-twice", det);
                }
                if (x < R.numseq) {
                        if (R.ended[x] == 2) {
                                snprintf(det, sizeof det, "sequence %d consumed twice", x);
                                violation("C02", "child-consumed-twice", det);
                        }
                }
                R.ended[x] = 2; /* consumed */
        }
        R.began[c] = 1;
        R.n_began++;
        R.in_flight++;
        if (R.in_flight > R.max_in_flight) R.max_in_flight = R.in_flight;
        dp_reset(m);
        pthread_mutex_unlock(&mu);
}

void kv_merge_end(struct msa *msa, struct aln_tasks *t, struct aln_mem *m, int task_id)
{
        ensure_thread();
        pthread_mutex_lock(&mu);
        char det[256];
        int c = t->list[task_id]->c;
        push_ev(E_MERGE_END, c, 0);
        if (!R.active || R.msa != msa || !R.began) {
                violation("C02", "merge-end-without-begin", "merge end event without run state");
        }
        if (!R.began[c] || R.ended[c]) {
                snprintf(det, sizeof det, "node %d ended without begin or twice", c);
                violation("C02", "merge-end-order", det);
        }
        R.ended[c] = 1;
        R.n_ended++;
        R.in_flight--;
        R.last_ended = c;
        R.order[R.n_order++] = c;
        {
                struct dpst *d = dp_find(m, 0);
                if (d) {
                        if (d->fb != d->fe || d->bb != d->be || d->mb != d->me) {
                                snprintf(det, sizeof det, "node %d completed with unfinished DP step (f %d/%d b %d/%d m %d/%d)", c, d->fb, d->fe, d->bb, d->be, d->mb, d->me);
                                violation("C02", "dp-unfinished-at-merge-end", det);
                        }
                        d->fb = d->fe = d->bb = d->be = d->mb = d->me = 0;
                }
        }
        /* structural invariant at node completion: the member list of c is the disjoint union of the member lists of its children */
        {
                int a = t->list[task_id]->a, b = t->list[task_id]->b;
                int na = msa->nsip[a], nb = msa->nsip[b], nc = msa->nsip[c];
                if (nc != na + nb) {
                        snprintf(det, sizeof det, "node %d has %d members, its children %d and %d have %d + %d", c, nc, a, b, na, nb);
                        violation("C10", "member-count", det);
                }
                if (!R.mark) R.mark = calloc((size_t)R.numseq + 1, sizeof(int));
                R.stamp++;
                for (int k = 0; k < na; k++) { int x = msa->sip[a][k]; if (x >= 0 && x < R.numseq) R.mark[x] = R.stamp; }
                for (int k = 0; k < nb; k++) { int x = msa->sip[b][k]; if (x >= 0 && x < R.numseq) R.mark[x] = R.stamp; }
                for (int k = 0; k < nc; k++) {
                        int x = msa->sip[c][k];
                        if (x < 0 || x >= R.numseq || R.mark[x] != R.stamp) {
                                snprintf(det, sizeof det, "node %d lists member %d which is not a member of child %d or %d (or is listed twice)", c, x, a, b);
                                violation("C10", "member-set", det);
                        }
                        R.mark[x] = -R.stamp; /* seen */
                }
        }
        /* structural invariant at node completion: every member row has the group's length */
        int nm = msa->nsip[c];
        int plen = msa->plen[c];
        for (int k = 0; k < nm; k++) {
                int idx = msa->sip[c][k];
                if (idx < 0 || idx >= msa->numseq) {
                        snprintf(det, sizeof det, "node %d member index %d out of range", c, idx);
                        violation("C10", "member-index", det);
                }
                struct msa_seq *q = msa->sequences[idx];
                long tot = q->len;
                for (int r = 0; r <= q->len; r++) tot += q->gaps[r];
                if (tot != plen) {
                        snprintf(det, sizeof det, "node %d member %d row length %ld != group length %d at completion", c, idx, tot, plen);
                        violation("C10", "row-length-at-completion", det);
                }
        }
        if (snap_on) {
                long need = 0;
                for (int k = 0; k < nm; k++) need += msa->sequences[msa->sip[c][k]]->len + 1;
                if (R.snap_ints + need > snap_budget) {
                        R.snaps_skipped++;
                } else {
                        if (R.n_snaps == R.cap_snaps) {
                                R.cap_snaps = R.cap_snaps ? R.cap_snaps * 2 : 256;
                                R.snaps = realloc(R.snaps, sizeof(struct snap) * (size_t)R.cap_snaps);
                        }
                        struct snap *s = &R.snaps[R.n_snaps++];
                        s->node = c; s->nmem = nm; s->plen = plen;
                        s->mem = malloc(sizeof(void *) * (size_t)nm);
                        s->gaps = malloc(sizeof(int *) * (size_t)nm);
                        s->len = malloc(sizeof(int) * (size_t)nm);
                        for (int k = 0; k < nm; k++) {
                                struct msa_seq *q = msa->sequences[msa->sip[c][k]];
                                s->mem[k] = q; s->len[k] = q->len;
                                s->gaps[k] = malloc(sizeof(int) * ((size_t)q->len + 1));
                                memcpy(s->gaps[k], q->gaps, sizeof(int) * ((size_t)q->len + 1));
                        }
                        R.snap_ints += need;
                }
        }
        pthread_mutex_unlock(&mu);
}

void kv_dp(int kind, struct aln_mem *m)
{
        ensure_thread();
        if (kind == KV_FWD_BEGIN || kind == KV_BWD_BEGIN) maybe_delay();
        pthread_mutex_lock(&mu);
        char det[256];
        push_ev(E_DP, kind, (long)((uintptr_t)m & 0xffffff));
        note_tid();
        struct dpst *d = dp_find(m, 1);
        if (!d) { pthread_mutex_unlock(&mu); return; }
        switch (kind) {
        case KV_FWD_BEGIN:
                if (d->me != d->fb || d->mb != d->me) {
                        snprintf(det, sizeof det, "forward pass %d started before meet-up %d finished", d->fb + 1, d->fb);
                        violation("C02", "dp-forward-before-previous-meetup", det);
                }
                if (d->bb > d->be) R.dp_overlap++;
                d->fb++;
                break;
        case KV_FWD_END:
                d->fe++;
                if (d->fe != d->fb) violation("C02", "dp-forward-end-order", "forward end without begin");
                break;
        case KV_BWD_BEGIN:
                if (d->me != d->bb || d->mb != d->me) {
                        snprintf(det, sizeof det, "backward pass %d started before meet-up %d finished", d->bb + 1, d->bb);
                        violation("C02", "dp-backward-before-previous-meetup", det);
                }
                if (d->fb > d->fe) R.dp_overlap++;
                d->bb++;
                break;
        case KV_BWD_END:
                d->be++;
                if (d->be != d->bb) violation("C02", "dp-backward-end-order", "backward end without begin");
                break;
        case KV_MEET_BEGIN:
                if (d->fe != d->mb + 1 || d->be != d->mb + 1 || d->fb != d->fe || d->bb != d->be) {
                        snprintf(det, sizeof det, "meet-up %d started with forward %d/%d backward %d/%d (begun/ended)", d->mb + 1, d->fb, d->fe, d->bb, d->be);
                        violation("C02", "meetup-before-halves", det);
                }
                d->mb++;
                break;
        case KV_MEET_END:
                d->me++;
                R.dp_steps++;
                break;
        default:
                break;
        }
        pthread_mutex_unlock(&mu);
}

void kv_km(int kind, const void *slot, const void *left, const void *right)
{
        ensure_thread();
        if (kind == KV_KM_SPLIT_BEGIN) maybe_delay();
        pthread_mutex_lock(&mu);
        char det[256];
        push_ev(E_KM, kind, (long)((uintptr_t)slot & 0xffffff));
        note_tid();
        switch (kind) {
        case KV_KM_ENTER:
                for (int k = 0; k < 4; k++) {
                        struct kmst *d = km_find((const char *)slot + k * sizeof(void *));
                        if (d) { d->begun = d->ended = d->reduces = 0; }
                }
                break;
        case KV_KM_SPLIT_BEGIN: {
                struct kmst *d = km_find(slot);
                if (d) {
                        if (d->begun != d->ended) violation("C02", "kmeans-slot-reused-while-running", "two restarts write the same result slot concurrently");
                        d->begun++;
                }
                if (km_open > 0) R.km_split_overlap++;
                km_open++;
                break; }
        case KV_KM_SPLIT_END: {
                struct kmst *d = km_find(slot);
                if (d) d->ended++;
                km_open--;
                R.km_splits++;
                break; }
        case KV_KM_REDUCE:
                for (int k = 0; k < 4; k++) {
                        struct kmst *d = km_find((const char *)slot + k * sizeof(void *));
                        if (!d) continue;
                        if (d->begun != d->reduces + 1 || d->ended != d->reduces + 1) {
                                snprintf(det, sizeof det, "reduction %d read restart slot %d with begun %d ended %d", d->reduces + 1, k, d->begun, d->ended);
                                violation("C02", "kmeans-reduce-before-restarts", det);
                        }
                        d->reduces++;
                }
                R.km_reduces++;
                break;
        case KV_KM_NODE_DONE:
                if (!left || !right) {
                        violation("C02", "kmeans-node-before-children", "k-means node returned before both sub-trees were built");
                }
                R.km_nodes++;
                break;
        default:
                break;
        }
        pthread_mutex_unlock(&mu);
}

void kv_param(struct aln_param *ap, int biotype, int type, float gpo, float gpe, float tgpe)
{
        ensure_thread();
        pthread_mutex_lock(&mu);
        push_ev(E_PARAM, type, biotype);
        if (logf) {
                char *b = malloc(16384);
                size_t o = 0, cap = 16384;
                /* order-independent checksum of the matrix plus full matrix on request */
                double h = 0;
                for (int i = 0; i < 23; i++) for (int j = 0; j < 23; j++) h += (double)ap->subm[i][j] * (double)(1 + i * 23 + j);
                o += snprintf(b + o, cap - o, "{\"rec\":\"param\",\"biotype\":%d,\"type\":%d,\"arg_gpo\":%.9g,\"arg_gpe\":%.9g,\"arg_tgpe\":%.9g,"
                              "\"gpo\":%.9g,\"gpe\":%.9g,\"tgpe\":%.9g,\"nthreads\":%d,\"mhash\":%.9g",
                              biotype, type, gpo, gpe, tgpe, ap->gpo, ap->gpe, ap->tgpe, ap->nthreads, h);
                if (param_matrix) {
                        o += snprintf(b + o, cap - o, ",\"subm\":[");
                        for (int i = 0; i < 23; i++) {
                                o += snprintf(b + o, cap - o, "%s[", i ? "," : "");
                                for (int j = 0; j < 23; j++) o += snprintf(b + o, cap - o, "%s%.9g", j ? "," : "", ap->subm[i][j]);
                                o += snprintf(b + o, cap - o, "]");
                        }
                        o += snprintf(b + o, cap - o, "]");
                }
                o += snprintf(b + o, cap - o, "}\n");
                out(b);
                free(b);
        }
        pthread_mutex_unlock(&mu);
}
