/* kvdrv: job-script driver for the kalign library (public API + direct
 * inspection of the msa object).  One JSON record per operation on stdout.
 *
 * usage: kvdrv SCRIPT   (or "-" for stdin)
 */
#define _GNU_SOURCE
#include <stdio.h>
#include <stdlib.h>
#include <string.h>
#include <stdint.h>
#include <ctype.h>
#include <pthread.h>

#include "kalign/kalign.h"
#include "msa_struct.h"
#include "msa_op.h"
#include "aln_param.h"
#include "alphabet.h"
#ifdef _OPENMP
#include <omp.h>
#endif

long kv_live_blocks(void);
long kv_live_bytes(void);
long kv_total_blocks(void);
long kv_peak_blocks(void);
long kv_unknown_frees(void);
long kv_pool_hits(void);
void kv_alloc_fill(int on, int byte);

#define NSLOT 16
static struct msa *slot[NSLOT];

static void jstr(const char *s, long n)
{
        putchar('"');
        if (s) {
                for (long i = 0; (n < 0 ? s[i] != 0 : i < n); i++) {
                        unsigned char c = (unsigned char)s[i];
                        if (c == '"' || c == '\\') { putchar('\\'); putchar(c); }
                        else if (c < 0x20 || c >= 0x7f) printf("\\u%04x", c);
                        else putchar(c);
                }
        }
        putchar('"');
}

static float parsef(const char *s) { return strtof(s, NULL); }

static char *tok(char **p)
{
        char *s = *p;
        while (*s == ' ' || *s == '\t') s++;
        if (!*s || *s == '\n') { *p = s; return NULL; }
        char *e = s;
        while (*e && *e != ' ' && *e != '\t' && *e != '\n') e++;
        if (*e) { *e = 0; e++; }
        *p = e;
        return s;
}

static void dump_msa(struct msa *m, int codes)
{
        if (!m) { printf("{\"op\":\"dump\",\"null\":1}\n"); return; }
        printf("{\"op\":\"dump\",\"null\":0,\"numseq\":%d,\"aligned\":%d,\"alnlen\":%d,\"biotype\":%d,\"L\":%d,\"rows\":[",
               m->numseq, m->aligned, m->alnlen, m->biotype, m->L);
        for (int i = 0; i < m->numseq; i++) {
                struct msa_seq *q = m->sequences[i];
                printf("%s{\"name\":", i ? "," : "");
                jstr(q->name, -1);
                printf(",\"len\":%d,\"rank\":%d,\"seq\":", q->len, q->rank);
                /* after finalise seq holds alnlen characters, before it holds len */
                if (m->aligned == ALN_STATUS_FINAL && m->alnlen > 0) jstr(q->seq, m->alnlen); else jstr(q->seq, q->len);
                printf(",\"gaps\":[");
                for (int j = 0; j <= q->len; j++) printf("%s%d", j ? "," : "", q->gaps[j]);
                printf("]");
                if (codes) {
                        printf(",\"s\":[");
                        for (int j = 0; j < q->len; j++) printf("%s%d", j ? "," : "", q->s[j]);
                        printf("]");
                }
                printf("}");
        }
        printf("]}\n");
}

struct parr_arg { char **v; int *l; int n, nt, ty; int rc; char **aln; int al; };
static void *parr_worker(void *a_)
{
        struct parr_arg *a = a_;
        a->aln = NULL; a->al = 0;
        a->rc = kalign(a->v, a->l, a->n, a->nt, a->ty, -1.0f, -1.0f, -1.0f, &a->aln, &a->al);
        return NULL;
}

static char **pre_v[64]; static int *pre_l[64]; static int pre_n[64];

/* number of file-backed mappings of this process (memory that is neither heap nor stack: a mapping left behind by a call is invisible to
 * the allocation accounting) */
static int count_file_maps(void)
{
        FILE *f = fopen("/proc/self/maps", "r");
        if (!f) return -1;
        char ln[1024]; int c = 0;
        while (fgets(ln, sizeof ln, f)) {
                char *p = strchr(ln, '/');
                if (p && !strstr(ln, "(deleted)")) c++;
        }
        fclose(f);
        return c;
}
static int base_file_maps = -1;

static int read_lines(const char *file, char ***out, int **lens)
{
        FILE *f = fopen(file, "r");
        if (!f) return -1;
        int n = 0, cap = 16;
        char **v = malloc(sizeof(char *) * cap);
        int *l = malloc(sizeof(int) * cap);
        char *line = NULL; size_t bl = 0; ssize_t r;
        while ((r = getline(&line, &bl, f)) != -1) {
                if (r && line[r - 1] == '\n') r--;
                if (n == cap) { cap *= 2; v = realloc(v, sizeof(char *) * cap); l = realloc(l, sizeof(int) * cap); }
                v[n] = malloc((size_t)r + 1);
                memcpy(v[n], line, (size_t)r); v[n][r] = 0;
                l[n] = (int)r;
                n++;
        }
        free(line);
        fclose(f);
        *out = v; *lens = l;
        return n;
}

int main(int argc, char **argv)
{
        FILE *sf = stdin;
        if (argc > 1 && strcmp(argv[1], "-")) {
                sf = fopen(argv[1], "r");
                if (!sf) { fprintf(stderr, "kvdrv: cannot open script %s\n", argv[1]); return 2; }
        }
        char *line = NULL; size_t bl = 0; ssize_t r;
        int opn = 0;
        base_file_maps = count_file_maps();
        while ((r = getline(&line, &bl, sf)) != -1) {
                char *p = line;
                char *op = tok(&p);
                if (!op || op[0] == '#') continue;
                opn++;
                if (!strcmp(op, "read")) {
                        int s = atoi(tok(&p)); char *f = tok(&p);
                        if (f && !strcmp(f, "STDIN")) f = NULL;
                        int rc = kalign_read_input(f, &slot[s], 1);
                        struct msa *m = slot[s];
                        printf("{\"op\":\"read\",\"n\":%d,\"slot\":%d,\"rc\":%d,\"null\":%d,\"numseq\":%d,\"aligned\":%d,\"biotype\":%d}\n",
                               opn, s, rc, m ? 0 : 1, m ? m->numseq : -1, m ? m->aligned : -1, m ? m->biotype : -1);
                } else if (!strcmp(op, "run")) {
                        int s = atoi(tok(&p)); int nt = atoi(tok(&p)); int ty = atoi(tok(&p));
                        float gpo = parsef(tok(&p)), gpe = parsef(tok(&p)), tgpe = parsef(tok(&p));
                        int rc = kalign_run(slot[s], nt, ty, gpo, gpe, tgpe);
                        struct msa *m = slot[s];
                        printf("{\"op\":\"run\",\"n\":%d,\"slot\":%d,\"rc\":%d,\"numseq\":%d,\"aligned\":%d,\"alnlen\":%d}\n",
                               opn, s, rc, m ? m->numseq : -1, m ? m->aligned : -1, m ? m->alnlen : -1);
                } else if (!strcmp(op, "write")) {
                        int s = atoi(tok(&p)); char *fmt = tok(&p); char *f = tok(&p);
                        if (fmt && !strcmp(fmt, "null")) fmt = NULL;
                        int rc = kalign_write_msa(slot[s], f, fmt);
                        printf("{\"op\":\"write\",\"n\":%d,\"slot\":%d,\"rc\":%d}\n", opn, s, rc);
                } else if (!strcmp(op, "dump")) {
                        int s = atoi(tok(&p)); char *c = tok(&p);
                        dump_msa(slot[s], c && !strcmp(c, "codes"));
                } else if (!strcmp(op, "cmp")) {
                        int a = atoi(tok(&p)); int b = atoi(tok(&p));
                        float sc = -12345.0f;
                        int rc = kalign_msa_compare(slot[a], slot[b], &sc);
                        printf("{\"op\":\"cmp\",\"n\":%d,\"rc\":%d,\"score\":%.9g}\n", opn, rc, sc);
                } else if (!strcmp(op, "free")) {
                        int s = atoi(tok(&p));
                        kalign_free_msa(slot[s]); slot[s] = NULL;
                        printf("{\"op\":\"free\",\"n\":%d,\"slot\":%d}\n", opn, s);
                } else if (!strcmp(op, "forget")) {
                        /* drop the pointer without freeing: used after a failed read, where the
                           library has already released the object it stored in *msa */
                        int s = atoi(tok(&p));
                        slot[s] = NULL;
                        printf("{\"op\":\"forget\",\"n\":%d,\"slot\":%d}\n", opn, s);
                } else if (!strcmp(op, "finalise")) {
                        int s = atoi(tok(&p)); int rc = -1;
                        if (slot[s] && slot[s]->aligned == ALN_STATUS_ALIGNED) rc = finalise_alignment(slot[s]);
                        printf("{\"op\":\"finalise\",\"n\":%d,\"rc\":%d}\n", opn, rc);
                } else if (!strcmp(op, "check")) {
                        int s = atoi(tok(&p)); int e = atoi(tok(&p));
                        int rc = kalign_check_msa(slot[s], e);
                        printf("{\"op\":\"check\",\"n\":%d,\"rc\":%d}\n", opn, rc);
                } else if (!strcmp(op, "arr")) {
                        char *f = tok(&p); int nt = atoi(tok(&p)); int ty = atoi(tok(&p));
                        float gpo = parsef(tok(&p)), gpe = parsef(tok(&p)), tgpe = parsef(tok(&p));
                        char **v = NULL; int *l = NULL;
                        int n = read_lines(f, &v, &l);
                        char **aln = NULL; int al = 0;
                        int rc = kalign(v, l, n, nt, ty, gpo, gpe, tgpe, &aln, &al);
                        printf("{\"op\":\"arr\",\"n\":%d,\"rc\":%d,\"numseq\":%d,\"alnlen\":%d,\"rows\":[", opn, rc, n, al);
                        if (rc == 0 && aln) {
                                for (int i = 0; i < n; i++) { if (i) putchar(','); jstr(aln[i], -1); free(aln[i]); }
                                free(aln);
                        }
                        printf("]}\n");
                        for (int i = 0; i < n; i++) free(v[i]);
                        free(v); free(l);
                } else if (!strcmp(op, "preload")) {
                        /* the application holds its input arrays before it starts calling the library (no driver allocation between two calls) */
                        int k = atoi(tok(&p)) & 63; char *f = tok(&p);
                        pre_n[k] = read_lines(f, &pre_v[k], &pre_l[k]);
                        printf("{\"op\":\"preload\",\"n\":%d,\"numseq\":%d}\n", opn, pre_n[k]);
                } else if (!strcmp(op, "arrp")) {
                        int k = atoi(tok(&p)) & 63; int nt = atoi(tok(&p)); int ty = atoi(tok(&p));
                        float gpo = parsef(tok(&p)), gpe = parsef(tok(&p)), tgpe = parsef(tok(&p));
                        char **aln = NULL; int al = 0; int n = pre_n[k];
                        int rc = n > 0 ? kalign(pre_v[k], pre_l[k], n, nt, ty, gpo, gpe, tgpe, &aln, &al) : -1;
                        printf("{\"op\":\"arr\",\"n\":%d,\"rc\":%d,\"numseq\":%d,\"alnlen\":%d,\"rows\":[", opn, rc, n, al);
                        if (rc == 0 && aln) {
                                for (int i = 0; i < n; i++) { if (i) putchar(','); jstr(aln[i], -1); free(aln[i]); }
                                free(aln);
                        }
                        printf("]}\n");
                } else if (!strcmp(op, "unload")) {
                        int k = atoi(tok(&p)) & 63;
                        for (int i = 0; i < pre_n[k]; i++) free(pre_v[k][i]);
                        if (pre_n[k] >= 0) { free(pre_v[k]); free(pre_l[k]); }
                        pre_v[k] = NULL; pre_l[k] = NULL; pre_n[k] = -1;
                        printf("{\"op\":\"unload\",\"n\":%d}\n", opn);
                } else if (!strcmp(op, "parr")) {
                        /* P application threads call kalign() at the same time on the same (read-only) input arrays */
                        char *f = tok(&p); int P = atoi(tok(&p)); int nt = atoi(tok(&p)); int ty = atoi(tok(&p));
                        char **v = NULL; int *l = NULL;
                        int n = read_lines(f, &v, &l);
                        if (P > 32) P = 32;
                        pthread_t th[32]; struct parr_arg pa[32];
                        for (int k = 0; k < P; k++) { pa[k].v = v; pa[k].l = l; pa[k].n = n; pa[k].nt = nt; pa[k].ty = ty; pthread_create(&th[k], NULL, parr_worker, &pa[k]); }
                        for (int k = 0; k < P; k++) pthread_join(th[k], NULL);
                        int same = 1, okc = 0;
                        for (int k = 0; k < P; k++) {
                                if (pa[k].rc == 0) okc++;
                                if (pa[k].rc != pa[0].rc || pa[k].al != pa[0].al) same = 0;
                                else if (pa[k].rc == 0) for (int i = 0; i < n; i++) if (strcmp(pa[k].aln[i], pa[0].aln[i])) { same = 0; break; }
                        }
                        printf("{\"op\":\"parr\",\"n\":%d,\"callers\":%d,\"ok\":%d,\"same\":%d,\"alnlen\":%d,\"rows\":[", opn, P, okc, same, pa[0].al);
                        if (pa[0].rc == 0) for (int i = 0; i < n; i++) { if (i) putchar(','); jstr(pa[0].aln[i], -1); }
                        printf("]}\n");
                        for (int k = 0; k < P; k++) if (pa[k].rc == 0 && pa[k].aln) { for (int i = 0; i < n; i++) free(pa[k].aln[i]); free(pa[k].aln); }
                        for (int i = 0; i < n; i++) free(v[i]);
                        free(v); free(l);
                } else if (!strcmp(op, "arr2msa")) {
                        int s = atoi(tok(&p)); char *f = tok(&p);
                        char **v = NULL; int *l = NULL;
                        int n = read_lines(f, &v, &l);
                        int rc = kalign_arr_to_msa(v, l, n, &slot[s]);
                        struct msa *m = slot[s];
                        printf("{\"op\":\"arr2msa\",\"n\":%d,\"rc\":%d,\"null\":%d,\"numseq\":%d,\"aligned\":%d,\"biotype\":%d}\n",
                               opn, rc, m ? 0 : 1, m ? m->numseq : -1, m ? m->aligned : -1, m ? m->biotype : -1);
                        for (int i = 0; i < n; i++) free(v[i]);
                        free(v); free(l);
                } else if (!strcmp(op, "msa2arr")) {
                        int s = atoi(tok(&p));
                        char **aln = NULL; int al = 0;
                        int rc = kalign_msa_to_arr(slot[s], &aln, &al);
                        printf("{\"op\":\"msa2arr\",\"n\":%d,\"rc\":%d,\"alnlen\":%d,\"rows\":[", opn, rc, al);
                        if (rc == 0 && aln) {
                                for (int i = 0; i < slot[s]->numseq; i++) { if (i) putchar(','); jstr(aln[i], -1); free(aln[i]); }
                                free(aln);
                        }
                        printf("]}\n");
                } else if (!strcmp(op, "param")) {
                        int bt = atoi(tok(&p)); int ty = atoi(tok(&p));
                        float gpo = parsef(tok(&p)), gpe = parsef(tok(&p)), tgpe = parsef(tok(&p));
                        struct aln_param *ap = NULL;
                        int rc = aln_param_init(&ap, bt, 1, ty, gpo, gpe, tgpe);
                        printf("{\"op\":\"param\",\"n\":%d,\"rc\":%d,\"biotype\":%d,\"type\":%d", opn, rc, bt, ty);
                        if (rc == 0 && ap) {
                                printf(",\"gpo\":%.9g,\"gpe\":%.9g,\"tgpe\":%.9g,\"subm\":[", ap->gpo, ap->gpe, ap->tgpe);
                                for (int i = 0; i < 23; i++) {
                                        printf("%s[", i ? "," : "");
                                        for (int j = 0; j < 23; j++) printf("%s%.9g", j ? "," : "", ap->subm[i][j]);
                                        printf("]");
                                }
                                printf("]");
                                aln_param_free(ap);
                        }
                        printf("}\n");
                } else if (!strcmp(op, "alphabet")) {
                        /* dump the letter -> code table of an alphabet type */
                        int ty = atoi(tok(&p));
                        struct alphabet *a = create_alphabet(ty);
                        printf("{\"op\":\"alphabet\",\"n\":%d,\"type\":%d,\"L\":%d,\"to_internal\":[", opn, ty, a ? a->L : -1);
                        if (a) { for (int i = 0; i < 128; i++) printf("%s%d", i ? "," : "", a->to_internal[i]); free(a); }
                        printf("]}\n");
                } else if (!strcmp(op, "live")) {
                        printf("{\"op\":\"live\",\"n\":%d,\"blocks\":%ld,\"bytes\":%ld,\"total\":%ld,\"peak\":%ld,\"unknown_frees\":%ld,\"pool_hits\":%ld,\"file_maps_extra\":%d}\n",
                               opn, kv_live_blocks(), kv_live_bytes(), kv_total_blocks(), kv_peak_blocks(), kv_unknown_frees(), kv_pool_hits(),
                               base_file_maps >= 0 ? count_file_maps() - base_file_maps : 0);
                } else if (!strcmp(op, "fill")) {
                        int on = atoi(tok(&p)); int b = atoi(tok(&p));
                        kv_alloc_fill(on, b);
                } else if (!strcmp(op, "churn")) {
                        unsigned sd = (unsigned)atoi(tok(&p)); int n = atoi(tok(&p));
                        /* allocate, fill and free blocks of the sizes kalign uses, leaving patterned garbage behind */
                        void **q = malloc(sizeof(void *) * (size_t)n);
                        static const int sizes[] = { 256, 512, 513 * 4, 56, 64, 1024, 40, 24, 2048, 4096, 16, 8192 };
                        for (int k = 0; k < n; k++) {
                                sd = sd * 1103515245u + 12345u;
                                int sz = sizes[(sd >> 16) % 12];
                                q[k] = malloc((size_t)sz);
                                memset(q[k], (int)((sd >> 8) & 0xff) | 1, (size_t)sz);
                        }
                        for (int k = 0; k < n; k++) { sd = sd * 1103515245u + 12345u; if ((sd >> 16) & 1) { free(q[k]); q[k] = NULL; } }
                        for (int k = 0; k < n; k++) free(q[k]);
                        free(q);
                        printf("{\"op\":\"churn\",\"n\":%d}\n", opn);
                } else if (!strcmp(op, "ompset")) {
                        /* the embedding application uses OpenMP itself and changes the process-wide thread setting between kalign calls */
                        int n = atoi(tok(&p));
                        long acc = 0;
#ifdef _OPENMP
                        omp_set_num_threads(n);
#pragma omp parallel reduction(+:acc)
                        { acc += 1; }
#endif
                        printf("{\"op\":\"ompset\",\"n\":%d,\"requested\":%d}\n", opn, n);
                        (void)acc;
                } else if (!strcmp(op, "echo")) {
                        char *t = tok(&p);
                        printf("{\"op\":\"echo\",\"n\":%d,\"text\":", opn); jstr(t, -1); printf("}\n");
                } else {
                        fprintf(stderr, "kvdrv: unknown op %s\n", op);
                        return 2;
                }
                fflush(stdout);
        }
        free(line);
        if (sf != stdin) fclose(sf);
        return 0;
}
