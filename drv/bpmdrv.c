/* bpmdrv: monitor for C11.  Runs the bit-parallel kernels of the real library
 * against a plain O(nm) semi-global dynamic programme and prints one JSON
 * summary.  Only n >= m >= 1 (the property's premise).
 *
 *   bpmdrv rand N SEED        random workload (see gen_case)
 *   bpmdrv exh SIGMA NMAX     all texts of length 1..NMAX and all patterns of
 *                             length 1..n over an alphabet of SIGMA symbols
 *   bpmdrv case FILE          replay: file holds "n m" then n text codes, m pattern codes
 */
#include <stdio.h>
#include <stdlib.h>
#include <stdint.h>
#include <string.h>
#include <pthread.h>
#include "bpm.h"

static int ref(const uint8_t *t, const uint8_t *p, int n, int m)
{
        /* min over substrings of t of the edit distance to p[0..m) */
        int *prev = malloc(sizeof(int) * (size_t)(m + 1)), *cur = malloc(sizeof(int) * (size_t)(m + 1));
        for (int j = 0; j <= m; j++) prev[j] = j;
        int best = prev[m];
        for (int i = 1; i <= n; i++) {
                cur[0] = 0;
                for (int j = 1; j <= m; j++) {
                        int c = prev[j - 1] + (t[i - 1] != p[j - 1]);
                        if (prev[j] + 1 < c) c = prev[j] + 1;
                        if (cur[j - 1] + 1 < c) c = cur[j - 1] + 1;
                        cur[j] = c;
                }
                if (cur[m] < best) best = cur[m];
                int *x = prev; prev = cur; cur = x;
        }
        free(prev); free(cur);
        return best;
}

static __thread uint64_t st = 88172645463325252ULL;
static pthread_mutex_t cmu = PTHREAD_MUTEX_INITIALIZER;
static uint32_t rnd(void) { st ^= st << 13; st ^= st >> 7; st ^= st << 17; return (uint32_t)(st >> 11); }

static long n_block, n_64, n_256, bad_block, bad_64, bad_256;
static long per_blocks[20];
static long n_capped, n_nonzero, n_zero;
static int printed = 0;
static long dist_hist[8];

static void print_case(const char *which, const uint8_t *t, const uint8_t *p, int n, int m, int e, int g)
{
        if (printed >= 5) return;
        printed++;
        printf("{\"rec\":\"mismatch\",\"kernel\":\"%s\",\"n\":%d,\"m\":%d,\"ref\":%d,\"got\":%d,\"t\":[", which, n, m, e, g);
        for (int i = 0; i < n; i++) printf("%s%d", i ? "," : "", t[i]);
        printf("],\"p\":[");
        for (int i = 0; i < m; i++) printf("%s%d", i ? "," : "", p[i]);
        printf("]}\n");
}

static int masks_ready = 0;   /* bpm.h: set_broadcast_mask() must be called before bpm_256; bpm_block and bpm have no such precondition */
static long n_before_mask;

static void check(const uint8_t *t, const uint8_t *p, int n, int m)
{
        int mm = m > 1024 ? 1024 : m;
        int e = ref(t, p, n, mm);
        int g = bpm_block(t, p, n, m);
        int g2 = -1, g3 = -1;
        if (m <= 63) g2 = bpm(t, p, n, m);
        if (!masks_ready) {
                /* first part of every run: the mask table of the 256-bit kernel has not been initialised yet */
                pthread_mutex_lock(&cmu);
                n_block++; n_before_mask++;
                { int nb0 = (mm + 63) / 64; per_blocks[nb0 < 19 ? nb0 : 19]++; }
                if (m > 1024) n_capped++;
                if (e) n_nonzero++; else n_zero++;
                if (e != g) { bad_block++; print_case("bpm_block", t, p, n, m, e, g); }
                if (m <= 63) { n_64++; if (g2 != e) { bad_64++; print_case("bpm", t, p, n, m, e, g2); } }
                pthread_mutex_unlock(&cmu);
                return;
        }
#ifdef HAVE_AVX2
        if (m <= 255) g3 = bpm_256(t, p, n, m);
#endif
        pthread_mutex_lock(&cmu);
        n_block++;
        int nb = (mm + 63) / 64;
        per_blocks[nb < 19 ? nb : 19]++;
        if (m > 1024) n_capped++;
        if (e) n_nonzero++; else n_zero++;
        { int b = 0; int x = e; while (x > 0 && b < 7) { b++; x >>= 2; } dist_hist[b]++; }
        if (e != g) { bad_block++; print_case("bpm_block", t, p, n, m, e, g); }
        if (m <= 63) {
                n_64++;
                if (g2 != e) { bad_64++; print_case("bpm", t, p, n, m, e, g2); }
        }
#ifdef HAVE_AVX2
        if (m <= 255) {
                n_256++;
                if (g3 != e) { bad_256++; print_case("bpm_256", t, p, n, m, e, g3); }
        }
#endif
        pthread_mutex_unlock(&cmu);
}

static void gen_case(long it)
{
        static const int sigs[] = { 2, 3, 4, 5, 13 };
        int sig = sigs[rnd() % 5];
        int m;
        int r = rnd() % 20;
        if (r < 6) m = 1 + rnd() % 70;
        else if (r < 10) m = 50 + rnd() % 220;
        else if (r < 16) m = 64 * (1 + rnd() % 17) + (int)(rnd() % 5) - 2;
        else if (r < 18) m = 1000 + rnd() % 300;
        else if (r < 19) m = 1020 + rnd() % 10;
        else m = 1025 + rnd() % 2000;
        if (m < 1) m = 1;
        int n;
        switch (rnd() % 4) {
        case 0: n = m; break;
        case 1: n = m + rnd() % 3; break;
        case 2: n = m + rnd() % (m + 50); break;
        default: n = 2 * m + rnd() % 50; break;
        }
        uint8_t *t = malloc((size_t)n), *p = malloc((size_t)m);
        for (int i = 0; i < n; i++) t[i] = rnd() % sig;
        int kind = rnd() % 8;
        if (kind < 5) {
                /* mutated substring of the text: substitutions, then insertions/deletions */
                int off = rnd() % (n - m + 1);
                int rate = (int)(it % 31);
                int j = 0, i = off;
                while (j < m) {
                        int x = rnd() % 100;
                        if (x < rate / 3 && i < n - 1) { i++; continue; }               /* deletion */
                        if (x < 2 * rate / 3) { p[j++] = rnd() % sig; continue; }         /* insertion */
                        p[j] = (i < n) ? t[i] : (uint8_t)(rnd() % sig);
                        if ((int)(rnd() % 100) < rate) p[j] = rnd() % sig;                /* substitution */
                        j++; i++;
                }
        } else if (kind < 6) {
                for (int i = 0; i < m; i++) p[i] = rnd() % sig;
        } else if (kind < 7) {
                int sub = rnd() % 3;
                if (sub == 2) {
                        /* homopolymer stretches: whole 64-bit words of a letter's match vector are empty or full */
                        static const int rls[] = { 16, 32, 63, 64, 65, 128 };
                        int rl = rls[rnd() % 6], tl = 20 + rnd() % 60;
                        for (int i = 0; i < m; i++) p[i] = (uint8_t)((i / rl) % sig);
                        for (int i = 0; i < n; i++) t[i] = (uint8_t)((rnd() % 4 == 0) ? rnd() % sig : (i / tl) % sig);
                } else if (sub == 1) {
                        /* block-composed pattern: consecutive segments over disjoint letter subsets (a letter of one 64-symbol word does not
                           occur in the following words: long carry chains in the multi-word adders) */
                        int seg = 16 + rnd() % 120;
                        for (int i = 0; i < m; i++) { int base = ((i / seg) * 2) % (sig > 1 ? sig : 1); p[i] = (uint8_t)((base + (rnd() % 2)) % sig); }
                        for (int i = 0; i < n; i++) if (rnd() % 4) t[i] = p[rnd() % m];
                } else {
                        /* the best match of the pattern (its first 1024 symbols) lies at the very end of the text */
                        for (int i = 0; i < m; i++) p[i] = rnd() % sig;
                        int mm = m > 1024 ? 1024 : m;
                        if (n >= mm) for (int i = 0; i < mm; i++) { t[n - mm + i] = p[i]; if (rnd() % 50 == 0) t[n - mm + i] = rnd() % sig; }
                }
        } else {
                /* low complexity: repeats */
                int per = 1 + rnd() % 4;
                for (int i = 0; i < m; i++) p[i] = (uint8_t)((i % per) % sig);
                for (int i = 0; i < n; i++) if (rnd() % 3) t[i] = (uint8_t)((i % per) % sig);
        }
        check(t, p, n, m);
        free(t); free(p);
}

struct targ { long n; uint64_t seed; };
static void *worker(void *a)
{
        struct targ *t = a;
        st = 88172645463325252ULL ^ (t->seed * 0x9E3779B97F4A7C15ULL);
        if (!st) st = 1;
        for (long it = 0; it < t->n; it++) gen_case(it);
        return NULL;
}

static void exhaustive(int sig, int nmax)
{
        uint8_t t[32], p[32];
        for (int n = 1; n <= nmax; n++) {
                long nt = 1; for (int i = 0; i < n; i++) nt *= sig;
                for (long ti = 0; ti < nt; ti++) {
                        long x = ti; for (int i = 0; i < n; i++) { t[i] = (uint8_t)(x % sig); x /= sig; }
                        for (int m = 1; m <= n; m++) {
                                long np = 1; for (int i = 0; i < m; i++) np *= sig;
                                for (long pi = 0; pi < np; pi++) {
                                        long y = pi; for (int i = 0; i < m; i++) { p[i] = (uint8_t)(y % sig); y /= sig; }
                                        check(t, p, n, m);
                                }
                        }
                }
        }
}

int main(int argc, char **argv)
{
        if (argc < 2) return 2;
        const char *mode = argv[1];
        if (!strcmp(mode, "rand") && (argc <= 4 || atoi(argv[4]) <= 1)) {
                /* a fifth of the cases before the mask table exists (fresh process, as in the first kalign run of a process) */
                long N0 = atol(argv[2]) / 5;
                uint64_t keep = st;
                st ^= ((uint64_t)atoll(argv[3]) + 77) * 0x9E3779B97F4A7C15ULL;
                if (!st) st = 1;
                for (long it = 0; it < N0; it++) gen_case(it);
                st = keep;
        }
#ifdef HAVE_AVX2
        set_broadcast_mask();
#endif
        masks_ready = 1;
        if (!strcmp(mode, "rand")) {
                long N = atol(argv[2]);
                int nthr = argc > 4 ? atoi(argv[4]) : 1;
                if (nthr <= 1) {
                        st ^= (uint64_t)atoll(argv[3]) * 0x9E3779B97F4A7C15ULL;
                        if (!st) st = 1;
                        for (long it = 0; it < N; it++) gen_case(it);
                } else {
                        /* concurrent callers, as under the omp-for of the distance matrix */
                        pthread_t th[64];
                        struct targ ta[64];
                        if (nthr > 64) nthr = 64;
                        for (int k = 0; k < nthr; k++) { ta[k].n = N / nthr + 1; ta[k].seed = (uint64_t)atoll(argv[3]) * 64 + (uint64_t)k; pthread_create(&th[k], NULL, worker, &ta[k]); }
                        for (int k = 0; k < nthr; k++) pthread_join(th[k], NULL);
                }
        } else if (!strcmp(mode, "exh")) {
                exhaustive(atoi(argv[2]), atoi(argv[3]));
        } else if (!strcmp(mode, "case")) {
                FILE *f = fopen(argv[2], "r");
                int n, m;
                if (!f || fscanf(f, "%d %d", &n, &m) != 2) return 2;
                uint8_t *t = malloc((size_t)n), *p = malloc((size_t)m);
                for (int i = 0; i < n; i++) { int v; if (fscanf(f, "%d", &v) != 1) return 2; t[i] = (uint8_t)v; }
                for (int i = 0; i < m; i++) { int v; if (fscanf(f, "%d", &v) != 1) return 2; p[i] = (uint8_t)v; }
                fclose(f);
                check(t, p, n, m);
        } else return 2;
        printf("{\"rec\":\"summary\",\"mode\":\"%s\",\"pairs\":%ld,\"bad_block\":%ld,\"n64\":%ld,\"bad64\":%ld,\"n256\":%ld,\"bad256\":%ld,"
               "\"capped\":%ld,\"dist_zero\":%ld,\"dist_nonzero\":%ld,\"before_mask\":%ld,\"avx2\":%d,\"per_blocks\":[",
               mode, n_block, bad_block, n_64, bad_64, n_256, bad_256, n_capped, n_zero, n_nonzero, n_before_mask,
#ifdef HAVE_AVX2
               1
#else
               0
#endif
        );
        for (int i = 0; i < 20; i++) printf("%s%ld", i ? "," : "", per_blocks[i]);
        printf("],\"dist_hist\":[");
        for (int i = 0; i < 8; i++) printf("%s%ld", i ? "," : "", dist_hist[i]);
        printf("]}\n");
        return (bad_block || bad_64 || bad_256) ? 1 : 0;
}
