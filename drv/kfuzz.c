/* libFuzzer target (C05 thorough tier): fuzz bytes -> kalign_read_input -> kalign_run -> kalign_write_msa. */
#define _GNU_SOURCE
#include <stdio.h>
#include <stdlib.h>
#include <stdint.h>
#include <string.h>
#include <unistd.h>
#include "kalign/kalign.h"

static char path[512];
static char outpath[512];

int LLVMFuzzerTestOneInput(const uint8_t *data, size_t size)
{
        if (!path[0]) {
                const char *d = getenv("KFUZZ_TMP");
                snprintf(path, sizeof path, "%s/kfuzz_in_%d", d ? d : "/tmp", (int)getpid());
                snprintf(outpath, sizeof outpath, "%s/kfuzz_out_%d", d ? d : "/tmp", (int)getpid());
                /* library messages go to stdout/stderr: silence them */
                if (!getenv("KFUZZ_VERBOSE")) { freopen("/dev/null", "w", stdout); }
        }
        FILE *f = fopen(path, "wb");
        if (!f) return 0;
        fwrite(data, 1, size, f);
        fclose(f);
        struct msa *m = NULL;
        int rc = kalign_read_input(path, &m, 1);
        if (rc == 0 && m) {
                rc = kalign_run(m, 2, KALIGN_TYPE_UNDEFINED, -1, -1, -1);
                if (rc == 0) {
                        static const char *fm[3] = { "fasta", "msf", "clu" };
                        kalign_write_msa(m, outpath, (char *)fm[size % 3]);
                }
        }
        if (rc == 0) kalign_free_msa(m);
        else if (m) kalign_free_msa(m);
        return 0;
}
